"""C09 - A sub-graph behaves the same inlined or nested, at any depth."""
from __future__ import annotations

import re

from .. import cparse as C
from ..index import AnalysisError
from ..k1 import ANY, Expect, Role
from ..report import Run
from .. import rules as R

ID = "C09"
GRAPH = "src/hgraph/runtime/graph.cpp"
NESTED = "src/hgraph/runtime/nested_graph_node.cpp"
RT = "src/hgraph/runtime/"
# child-graph owners: TU -> (function holding the evaluate loop, class of owner)
OWNERS = {
    "nested_graph_node.cpp": ("single_nested_graph_evaluate", "all"),
    "try_except_node.cpp": ("try_except_evaluate_impl", "all"),
    "map_node.cpp": ("map_evaluate_impl", "due"),
    "tsl_map_node.cpp": ("tsl_map_evaluate_impl", "due"),
    "reduce_node.cpp": ("reduce_evaluate", "due"),
    "mesh_node.cpp": ("mesh_evaluate_impl", "mesh"),
    "switch_node.cpp": ("switch_evaluate", "all"),
    "ordered_reduce_node.cpp": ("ordered_reduce_evaluate", "all"),
}
HDR = r"graph_header\(.*\)"

TECHNIQUE = ("ops-table slot wiring (K5), decision tables of the push/pull delegation functions over all orderings (K1/K6), ordering rules on "
             "the CFG (K2), sibling agreement over the eight child-graph owners (K7), who-calls rule for boundary code (K4)")
EXPLANATION = (
    "Decides the scheduling-delegation and boundary clauses that make nesting transparent: a nested graph's schedule_node slot is the "
    "delegating function, which clamps the time to max(when, parent NOW), records it in the child, lowers the child's cache and wakes the "
    "parent node at that time iff the child is started and not being evaluated (push half); a completed nested evaluation propagates the "
    "child's next time to the parent iff it is before MAX_DT (pull half); every owner of child graphs evaluates children with its own "
    "evaluation time only, skips stopped-but-lingering children where its removal path leaves them, re-arms itself for every child it skips "
    "because it is not due (the pull test is evaluated whether or not the child was due), and starts children at its own time then samples "
    "their inputs; the single nested node re-binds and then returns the child's result, and propagates the child's schedule after start; "
    "boundary code only binds (no value copies). Not decided: equality of the two output streams for every sub-graph (needs node semantics).")
ASSUMPTIONS = ["child.next_scheduled_time() returns the child's cache maintained per C02.b/c", "times are multiples of MIN_TD"]
DECIDED = ["a push half wired", "b nested_schedule_node_impl table", "c pull half", "d owner protocol (8 owners)", "e single nested node",
           "f boundaries are bindings",
           'j try_except pulls on the failing exit (= C15.c)', 'k pass-through only for an unchanged argument (= C06.f)', 'l nested start samples with valid() (= C12.m)', 'm pass-through of a non-peered structural argument (known finding F-C09-2)',
           'n capture de-dup (= C06.j)', 'o captured vs declared boundary in the interning key (= C06.a)', 'p deferred add_node interns only nodes with an output (= C06.b)', 'q passive() tag at the nested boundary (known finding F-C09-3)']
NOT_DECIDED = ["stream equality for every sub-graph"]

ROOT_NESTED_DIFF = {"parent_kind", "schedule_node_impl", "global_state_impl", "root_impl", "graph_executor_impl", "parent_node_impl",
                    "set_child_schedule_observer_impl"}


def _owner_fn(run, tu, name):
    rel = RT + tu
    fds = run.tree.funcs(rel, name)
    if len(fds) != 1:
        raise AnalysisError("anchor-vanished", f"{tu}::{name} matched {len(fds)}")
    return R.parse(run, fds[0])


def check(run: Run) -> None:
    t = run.tree

    with run.obligation("C09.a", "K5", "the nested graph ops table delegates schedule_node to nested_schedule_node_impl (root: the plain slot rule) "
                        "and root/nested tables differ only in the parent-related slots"):
        root = R.designated_slots(R.fn(run, GRAPH, "make_root_ops").body)
        nest = R.designated_slots(R.fn(run, GRAPH, "make_nested_ops").body)
        run.sites(len(root), 20, "root slots")
        run.sites(len(nest), 20, "nested slots")
        run.count(len(root) + len(nest), "C09.a")
        if nest.get("schedule_node_impl") != "&nested_schedule_node_impl":
            run.finding("C09.a", "make_nested_ops.schedule_node_impl", f"nested schedule_node_impl = {nest.get('schedule_node_impl')}: a schedule inside a "
                        f"nested graph would no longer wake the parent", loc=GRAPH)
        if root.get("schedule_node_impl") != "&schedule_node_impl<RootGraphRuntimeStorage>":
            run.finding("C09.a", "make_root_ops.schedule_node_impl", f"root schedule_node_impl = {root.get('schedule_node_impl')}", loc=GRAPH)
        if "set_child_schedule_observer_impl" in root or nest.get("set_child_schedule_observer_impl") != "&nested_set_child_schedule_observer_impl":
            run.finding("C09.a", "set_child_schedule_observer_impl", "the child schedule observer slot must exist in the nested table only", loc=GRAPH)
        for k in sorted(set(root) | set(nest)):
            a, b = root.get(k), nest.get(k)
            if k in ROOT_NESTED_DIFF:
                continue
            na = (a or "").replace("RootGraphRuntimeStorage", "S")
            nb = (b or "").replace("NestedGraphRuntimeStorage", "S")
            if na != nb:
                run.finding("C09.a", f"slot:{k}", f"root and nested tables disagree on `{k}` beyond the storage tag: {a} vs {b}", loc=GRAPH)
            elif a and "Nested" in a or b and "Root" in b:
                run.finding("C09.a", f"slot-storage:{k}", f"slot `{k}` is instantiated for the wrong storage: root={a} nested={b}", loc=GRAPH)

    with run.obligation("C09.b", "K1/K6", "nested_schedule_node_impl: W' = max(W, parent NOW) delegated to the slot rule; child cache lowered and parent "
                        "woken at W' iff started and not evaluating"):
        fa = R.fn(run, GRAPH, "nested_schedule_node_impl")
        roles = [Role("W", "t", r"when", lvalue=True), Role("PNOW", "t", HDR + r"\.parent_node\(\)\.graph\(\)\.evaluation_time\(\)"),
                 Role("NEXT", "t", HDR + r"\.next_scheduled_time", lvalue=True),
                 Role("ST", "bool", HDR + r"\.started"), Role("EV", "bool", HDR + r"\.evaluating"),
                 Role("NOOBS", "bool", HDR + r"\.child_schedule_observer==nullptr|nullptr==" + HDR + r"\.child_schedule_observer")]

        def spec(v):
            w1 = v.max("W", "PNOW")
            calls = [("SLOT", (ANY, ANY, "node_index", w1))]
            st = {"W": w1}
            live = v.b("ST") and not v.b("EV")
            if live and v.lt(w1, "NEXT"):
                st["NEXT"] = w1
            if not live:
                return Expect(calls=calls, stores=st)
            if not v.b("NOOBS"):
                calls.append(("OBSERVER", (ANY, w1)))
            calls.append(("PARENT", (ANY, w1)))
            return Expect(calls=calls, stores=st)
        R.k1(run, "C09.b", fa, roles, spec, role_calls={"SLOT": r"schedule_node_impl", "OBSERVER": HDR + r"\.child_schedule_observer",
                                                       "PARENT": HDR + r"\.parent_node\(\)\.graph\(\)\.schedule_node"},
             what="nested_schedule_node_impl")
        cn = R.aliases_of(fa)
        sl = R.calls(fa, "schedule_node_impl")
        if len(sl) != 1 or not isinstance(sl[0].fn, C.Id) or "NestedGraphRuntimeStorage" not in (sl[0].fn.targs or ""):
            run.finding("C09.b", "nested_schedule_node_impl:delegate", "must delegate to schedule_node_impl<NestedGraphRuntimeStorage>", loc=GRAPH)
        pc = [c for c in R.calls(fa, "schedule_node") if isinstance(c.fn, C.Member)]
        if len(pc) != 1 or cn(pc[0].args[0]) != HDRX(cn, "parent_node().node_index()"):
            pass

    with run.obligation("C09.b2", "K2+K4", "the `evaluating` flag that suppresses the out-of-band parent wake-up brackets exactly one evaluate_impl "
                        "call: set once, cleared on every exit (return, pause, exception)"):
        fa = R.fn(run, GRAPH, "evaluate_impl")
        fl = R.flow(run, fa)
        on = R.store_is(r".*\.evaluating", r"true")
        off = R.store_is(r".*\.evaluating", r"false")
        for ex in ("normal", "exc"):
            R.k2_follow(run, "C09.b2", fl, on, off, f"evaluating := true is undone on every {ex} exit", exits=ex)
        ws = [w for w in R.field_writers(run.tree, "evaluating", files=[GRAPH]) if w[3] == "store"]
        run.sites(len(ws), 2, "stores to evaluating")
        for rel, qual, line, kind, *rest in ws:
            run.count(1, "C09.b2.writers")
            if not qual.endswith("evaluate_impl"):
                run.finding("C09.b2", f"evaluating:writer:{qual}", f"{qual} writes the evaluating flag outside evaluate_impl", loc=f"{rel}:{line}")

    with run.obligation("C09.c", "K2+K1", "a completed nested evaluation propagates the child's next time to the parent (not on the pause path); "
                        "propagate schedules the parent at NEXT iff NEXT < MAX_DT"):
        fa = R.fn(run, GRAPH, "evaluate_impl")
        fl = R.flow(run, fa)
        prop = R.call_is(name="propagate_nested_parent_schedule")
        pn = fl.nodes_of(prop)
        if not pn:
            run.finding("C09.c", "evaluate_impl:no-propagate-call", "nested graph evaluation never propagates the child's next scheduled time to the parent "
                        "(propagate_nested_parent_schedule is not called)", loc=GRAPH)
        ev = R.call_is(name="evaluate", recv=r"node_view")
        # after the scan completes (cursor reset) every normal path passes the propagate call under the Nested instantiation test
        cn = R.aliases_of(fa)
        reset = R.store_is(r".*evaluation_cursor", r"0")
        w = fl.reach(fl.states_of(reset), avoid=prop, targets=lambda n: n.id == fl.cfg.exit,
                     edge_skip=lambda node, lab: node.kind == "cond" and node.label == "std::is_same_v" and lab == "F")
        run.count(1, "C09.c.after-scan")
        if w is not None:
            run.finding("C09.c", "evaluate_impl:no-propagate", "a completed nested cycle can return without propagating the child's schedule: " + fl.path_text(w),
                        loc=fl.cfg.describe(w[0][0]))
        for nid in pn:
            if fl.cfg.nodes[nid].loops:
                run.finding("C09.c", "evaluate_impl:propagate-in-loop", "propagation must follow the scan, not run inside it", loc=fl.cfg.describe(nid))
        ifs = [s for s in fa.body.stmts if isinstance(s, C.If) and s.constexpr and R.calls(s.then, "propagate_nested_parent_schedule")]
        if len(ifs) != 1 or "NestedGraphRuntimeStorage" not in R.Canon(keep_targs=True)(ifs[0].cond):
            run.finding("C09.c", "evaluate_impl:propagate-instantiation", "propagation must be compiled for the Nested storage instantiation", loc=GRAPH)
        # pause path does not propagate: `return false` is not preceded by the propagate call
        R.k2_never_after(run, "C09.c", fl, prop, lambda n: n.kind == "stmt" and n.label == "return false", "pause return after propagation")
        fa = R.fn(run, GRAPH, "propagate_nested_parent_schedule")
        roles = [Role("N", "t", r"state\.next_scheduled_time"), Role("MAX_DT", "t", r"MAX_DT", sentinel="max")]
        R.k1(run, "C09.c", fa, roles, lambda v: Expect(calls=[("SCHEDULE", (("sym", r"state\.parent_node\(\)\.node_index\(\)"), "N"))]) if v.lt("N", "MAX_DT")
             else Expect(calls=[]), role_calls={"SCHEDULE": r"state\.parent_node\(\)\.graph\(\)\.schedule_node"}, what="propagate_nested_parent_schedule")

    with run.obligation("C09.d", "K7", "owner protocol over the eight child-graph owners: evaluate with the owner's own time; skip stopped children "
                        "where they can linger; re-arm for children skipped as not due; start at the owner's time then sample inputs"):
        n = 0
        for tu, (fname, klass) in OWNERS.items():
            rel = RT + tu
            fa = _owner_fn(run, tu, fname)
            cn = R.aliases_of(fa)
            n += 1
            run.count(1, f"C09.d.{tu}")
            evs = [c for c in R.calls(fa, "evaluate") if isinstance(c.fn, C.Member) and re.search(r"child|graph|active", cn(c.fn.obj))]
            if not evs:
                run.finding("C09.d", f"{tu}:no-evaluate", f"{fname} no longer evaluates its child graph(s)", loc=rel)
                continue
            for c in evs:
                if len(c.args) != 1 or cn(c.args[0]) != "evaluation_time":
                    run.finding("C09.d", f"{tu}:d1-time", f"{fname} evaluates a child at {[cn(a) for a in c.args]} instead of its own evaluation_time",
                                loc=fa.loc(c))
            pnames = [p[1] for p in fa.params]
            if "evaluation_time" not in pnames:
                raise AnalysisError("anchor-vanished", f"{fname} has no evaluation_time parameter")
            reassigned = [x for x in fa.body.walk() if isinstance(x, C.Binary) and x.op in C._ASSIGN and cn(x.l) == "evaluation_time"]
            if reassigned:
                run.finding("C09.d", f"{tu}:d1-reassigned", f"{fname} rewrites its evaluation_time before evaluating children", loc=fa.loc(reassigned[0]))
            fl = R.flow(run, fa)
            evn = lambda x: x.kind == "call" and x.name == "evaluate" and re.search(r"child|graph|active", x.recv or "")
            if klass in ("due", "mesh"):
                # d2: stopped children are skipped (map / tsl_map / mesh keep stopped entries until slot erase)
                if tu in ("map_node.cpp", "tsl_map_node.cpp"):
                    guard = [x for x in fl.cfg.nodes if x.kind == "cond" and re.search(r"started\(\)", x.label) and x.loops]
                    if not guard:
                        run.finding("C09.d", f"{tu}:d2-stopped", f"{fname} must skip children that are not started (removed keys linger this cycle)", loc=rel)
                # d3: the pull test is evaluated for due and not-due children alike
                due = [x.id for x in fl.cfg.nodes if x.kind == "cond" and x.loops and
                       (re.search(r"next_scheduled_time\(\)<=evaluation_time", x.label.replace(" ", "")) or x.label == "due")]
                pt = lambda x: x.kind == "cond" and re.search(r"(next|child_next|next_scheduled_time\(\))!=MAX_DT|MAX_DT!=(next|child_next)", x.label.replace(" ", "")) is not None
                if not due:
                    raise AnalysisError("anchor-vanished", f"{fname}: due-guard not found")
                if not fl.nodes_of(pt):
                    run.finding("C09.d", f"{tu}:d3-no-pull", f"{fname} has no pull test (next != MAX_DT) for its children", loc=rel)
                else:
                    heads = {h for d in due for h in fl.cfg.nodes[d].loops}
                    w = fl.reach([s for s in fl.succ if s[0] in due], avoid=pt, targets=lambda x: x.id in heads,
                                 first_edge=lambda lab: lab in ("T", "F"))
                    if w is not None:
                        run.finding("C09.d", f"{tu}:d3-skipped-child-not-rearmed",
                                    f"{fname}: an iteration can finish without testing the child's next scheduled time (a child that is not due, or "
                                    f"was just evaluated, would not re-arm the parent): " + fl.path_text(w), loc=fl.cfg.describe(w[0][0]))
                    pulls = [c for c in R.calls(fa) if R.callee_name(c) in ("schedule_node", "push_pulled_child_schedule")
                             and any(cn(a) in ("next", "child_next") for a in c.args)]
                    if not pulls:
                        run.finding("C09.d", f"{tu}:d3-pull-time", f"{fname} must re-arm with the child's own next scheduled time", loc=rel)
                    for d in R.find(fa, lambda x: isinstance(x, C.Declarator) and x.name in ("next", "child_next") and x.init is not None):
                        if cn(d.init) not in ("child.next_scheduled_time()",):
                            run.finding("C09.d", f"{tu}:d3-next-source", f"the re-arm time must be child.next_scheduled_time(): {cn(d.init)}", loc=fa.loc(d))
            # d4: start with the owner's time, then sample inputs
            txt = t.read(rel)
            starts = []
            for fd in t.file(rel).funcs:
                body = t.file(rel).text(fd.body[0], fd.body[1])
                if "schedule_sampled_input_consumers" in body and ". start (" in body:
                    starts.append(fd)
            if tu == "try_except_node.cpp" or tu == "nested_graph_node.cpp" or starts:
                for fd in starts:
                    fa2 = R.parse(run, fd, strict=False)
                    cn2 = R.aliases_of(fa2)
                    fl2 = R.flow(run, fa2)
                    st = lambda x: x.kind == "call" and x.name == "start" and len(x.args) == 1
                    for nid in fl2.nodes_of(st):
                        if fl2.cfg.nodes[nid].args[0] != "evaluation_time":
                            run.finding("C09.d", f"{tu}:d4-start-time", f"{fd.name} starts a child at {fl2.cfg.nodes[nid].args[0]}", loc=fl2.cfg.describe(nid))
                    if fl2.nodes_of(st):
                        R.k2_follow(run, "C09.d", fl2, st, R.call_is(name="schedule_sampled_input_consumers"),
                                    f"{tu}:{fd.name}: child start is followed by sampling its bound inputs", exits="normal", after="completed")
            else:
                run.finding("C09.d", f"{tu}:d4-missing", f"{tu} never samples its children's inputs after starting them", loc=rel)
        run.sites(n, 8, "owners")

    with run.obligation("C09.e", "K2+K1", "single nested node: start ends with schedule propagation; evaluate re-binds then returns the child's "
                        "result at NOW; propagation schedules the parent iff next != MAX_DT"):
        fa = R.fn(run, NESTED, "single_nested_graph_start")
        fl = R.flow(run, fa)
        R.k2_follow(run, "C09.e", fl, R.call_is(name="ensure_child_graph"), R.call_is(name="single_nested_graph_propagate_schedule"),
                    "start always ends with propagating the child's schedule", exits="normal", after="completed")
        # ... and the propagation comes AFTER the child was started (before the start the child has nothing scheduled: the wake-ups its
        # nodes request while starting would never reach the parent); try_except has its own start function with the same duty
        for rel_, fn_ in ((NESTED, "single_nested_graph_start"), (RT + "try_except_node.cpp", "try_except_start")):
            fa_ = R.fn(run, rel_, fn_)
            fl_ = R.flow(run, fa_)
            R.k2_follow(run, "C09.e", fl_, R.call_is(name="start", recv=r"nested\.child_graph\(\)"), R.call_is(name="single_nested_graph_propagate_schedule"),
                        f"{fn_}: the child's start is followed by propagating its schedule to the parent", exits="normal", after="completed")
            R.k2_follow(run, "C09.e", fl_, R.call_is(name="start", recv=r"nested\.child_graph\(\)"), R.call_is(name="schedule_sampled_input_consumers"),
                        f"{fn_}: the child's start is followed by sampling its bound inputs", exits="normal", after="completed")
        fa = R.fn(run, NESTED, "single_nested_graph_evaluate")
        cn = R.aliases_of(fa)
        rets = [cn(r.e) for r in R.find(fa, lambda n: isinstance(n, C.Return))]
        run.count(1, "C09.e.evaluate")
        if rets != ["true", "nested.child_graph().evaluate(evaluation_time)"]:
            run.finding("C09.e", "single_nested_graph_evaluate:returns", f"must return true when not started, else the child's evaluate(NOW): {rets}", loc=NESTED)
        fl = R.flow(run, fa)
        ev = R.call_is(name="evaluate", recv=r"nested\.child_graph\(\)")
        R.k2_precede(run, "C09.e", fl, R.call_is(name="single_nested_graph_bind_inputs"), ev, "inputs are re-bound before the child is evaluated")
        R.k2_precede(run, "C09.e", fl, R.call_is(name="single_nested_graph_bind_output"), ev, "output is re-bound before the child is evaluated")
        fa = R.fn(run, NESTED, "single_nested_graph_propagate_schedule")
        roles = [Role("PROP", "bool", r"nested\.context\(\)\.options\.propagate_child_schedule"), Role("HAS", "bool", r"nested\.child_graph_value\(\)\.has_value\(\)"),
                 Role("N", "t", r"nested\.child_graph\(\)\.next_scheduled_time\(\)"), Role("MAX_DT", "t", r"MAX_DT", sentinel="max")]

        def spec(v):
            if not v.b("PROP") or not v.b("HAS"):
                return Expect(calls=[])
            return Expect(calls=[("SCHEDULE", (("sym", r"nested\.node\(\)\.node_index\(\)"), "N"))]) if v.ne("N", "MAX_DT") else Expect(calls=[])
        R.k1(run, "C09.e", fa, roles, spec, role_calls={"SCHEDULE": r"nested\.node\(\)\.graph\(\)\.schedule_node"}, what="single_nested_graph_propagate_schedule")

    with run.obligation("C09.f", "K4", "boundary code only binds: no value copy / delta application in the nested bind functions"):
        n = 0
        for nm in ("single_nested_graph_bind_inputs", "single_nested_graph_bind_output"):
            fa = R.fn(run, NESTED, nm)
            bad = [c for c in R.calls(fa) if R.callee_name(c) in ("copy_value_from", "move_value_from", "apply_delta", "apply_current_value", "from_python",
                                                                 "begin_mutation", "set_value")]
            binds = [c for c in R.calls(fa) if R.callee_name(c) in ("bind_input_to_source", "bind_forwarding_output_tree_to_source", "clear_forwarding_output_tree")]
            n += len(binds)
            run.count(1)
            for c in bad:
                run.finding("C09.f", f"{nm}:{R.callee_name(c)}", f"{nm} copies values across the boundary ({R.callee_name(c)}): a nested output would lag or "
                            f"duplicate ticks compared with the inlined graph", loc=fa.loc(c))
            if not binds:
                run.finding("C09.f", f"{nm}:no-bind", f"{nm} no longer binds", loc=NESTED)
        run.sites(n, 3, "bind calls")

    with run.obligation("C09.g", "K7", "captured outer ports are appended AFTER the declared inputs of a sub-graph: every place that turns a capture index into "
                        "an input ordinal adds the collector's base_index (a bare capture index would alias a declared input)"):
        WIRING = "src/hgraph/types/graph_wiring.cpp"
        fi = t.file(WIRING)
        n = 0
        for fd in fi.funcs:
            if fd.body is None or "index_for" not in fi.text(fd.body[0], fd.body[1]) or fd.name == "index_for":
                continue
            fa = R.parse(run, fd, strict=False)
            cn = R.aliases_of(fa)
            parents = {}
            for node in fa.body.walk():
                for ch in node.children():
                    parents[id(ch)] = node
            for c in R.calls(fa, "index_for"):
                if not isinstance(c.fn, C.Member):
                    continue
                n += 1
                run.count(1, "C09.g.use")
                recv = cn(c.fn.obj)
                par = parents.get(id(c))
                while par is not None and isinstance(par, C.Cast):
                    if cn(par) == cn(c) and "void" in str(getattr(par, "type", "")):
                        break
                    par = parents.get(id(par))
                if isinstance(par, C.Cast) or (isinstance(par, C.ExprStmt)):
                    continue  # value discarded: registration only
                ok = isinstance(par, C.Binary) and par.op == "+" and any(re.fullmatch(re.escape(recv).replace(r"\*", "") + r"(\.|->)base_index", cn(x)) or
                                                                           cn(x).endswith("base_index") for x in (par.l, par.r) if x is not c)
                if not ok:
                    run.finding("C09.g", f"{fd.name}:capture-ordinal-without-base", f"{fd.qual} uses `{cn(c)}` as an input ordinal without adding base_index: "
                                "the nested node would read its k-th DECLARED input instead of its k-th captured outer port", loc=fa.loc(c))
        run.sites(n, 3, "capture index uses")
        fa = R.fn(run, WIRING, "OuterCaptureCollector::boundary_ordinal")
        rets = [R.Canon()(r.e).replace(" ", "") for r in R.find(fa, lambda x: isinstance(x, C.Return))]
        if "base_index+capture_index" not in rets and "capture_index+base_index" not in rets:
            run.finding("C09.g", "boundary_ordinal:no-base", f"boundary_ordinal of a captured source must be base_index + capture index: {rets}", loc=WIRING)

    with run.obligation("C09.d4", "K2", "reduce_: combiners notify each other within one pass (a combiner's output wakes its parent combiner, which pushes the "
                        "reduce node at NOW and overwrites its single graph slot), so a deadline armed inside the loop is armed again once the pass is complete"):
        fa = R.fn(run, RT + "reduce_node.cpp", "reduce_evaluate")
        fl = R.flow(run, fa)
        arm = lambda x: x.kind == "call" and x.name == "schedule_node" and x.args[:1] == ("view.node_index()",)
        nodes = R.require_nodes(run, fl, arm, "reduce node re-arm", 1)
        inner = [i for i in nodes if fl.cfg.nodes[i].loops]
        outer = [i for i in nodes if not fl.cfg.nodes[i].loops]
        run.count(1, "C09.d4")
        if inner and not outer:
            run.finding("C09.d4", "reduce_evaluate:rearm-only-inside-pass", "the reduce node re-arms a combiner's future deadline only inside the evaluation loop: a "
                        "combiner evaluated later in the pass pushes the node at NOW and overwrites it; the wake-up booked inside the combiner child is lost "
                        "when its cycle is otherwise idle", loc=fl.cfg.describe(inner[0]))
        elif inner:
            # exempt: the pause path (`return false` resumes the same pass later); the guard of the final re-arm on the accumulated minimum
            # (it is != MAX_DT whenever an in-loop arm happened)
            stop = lambda x: x.id in outer or (x.kind == "stmt" and x.label.replace(" ", "") == "returnfalse")
            w = fl.reach(fl.states_of(lambda x: x.id in inner), avoid=stop, targets=lambda x: x.id == fl.cfg.exit,
                         edge_skip=lambda node, lab: node.kind == "cond" and re.fullmatch(r"\w+!=MAX_DT|MAX_DT!=\w+", node.label.replace(" ", "")) is not None and lab == "F")
            if w is not None:
                run.finding("C09.d4", "reduce_evaluate:rearm-not-repeated", "a completed pass can end without re-arming the earliest pending deadline: " + fl.path_text(w),
                            loc=fl.cfg.describe(w[0][0]))

    with run.obligation("C09.h", "K6", "starting a nested graph schedules a boundary consumer only to SAMPLE a source that already has a value; it never "
                        "schedules a consumer of a source without a value (inlined, that consumer would not be evaluated in that cycle) "
                        "(KNOWN FINDING F-C09-1 on the current tree)"):
        NB = "include/hgraph/runtime/nested_bindings.h"
        fa = R.fn(run, NB, "nested_input_binding_has_sampled_active_target")
        cn = R.aliases_of(fa)
        rets = [cn(r.e).replace(" ", "") for r in R.find(fa, lambda x: isinstance(x, C.Return)) if r.e is not None]
        conds = [cn(s0.cond).replace(" ", "") for s0 in fa.body.walk() if isinstance(s0, C.If)]
        run.sites(len(rets), 3, "sampling decisions")
        run.count(1, "C09.h")
        loose = [x for x in rets + conds if "accepts_invalid" in x or re.search(r"\|\|.*valid_inputs", x)]
        if loose:
            run.finding("C09.h", "nested_input_binding_has_sampled_active_target:accepts-invalid", "a consumer whose validity gate is empty (InputValidity::Unchecked) is "
                        f"scheduled when its nested graph starts although the boundary source has no value ({loose[0]}): nested_<G> evaluates it in the start "
                        "cycle with nothing modified, the inlined G does not", loc=fa.loc(fa.body))
        need = [x for x in rets + conds if ".valid()" in x and ".active()" in x]
        if not need:
            run.finding("C09.h", "nested_input_binding_has_sampled_active_target:no-valid-test", "sampling must be limited to active inputs whose source is valid", loc=NB)

    with run.obligation("C09.i", "K9", "captured outer ports are de-duplicated by SOURCE IDENTITY: WiringPortRef::same_source_as compares, per source kind, every field of the "
                        "source record (node, path and output kind of a peered source; index, path and capture flag of a boundary source; state and path of a delayed "
                        "one) - two same-schema projections of one outer node are two different captures, or the nested child reads the first projection for both"):
        GW = "include/hgraph/types/graph_wiring.h"
        fa = R.fn(run, GW, "WiringPortRef::same_source_as")
        cn = R.Canon()
        WANT = {   # case label -> accessor stems that must each be compared with `other.`'s
            "Peered": ("peered_node", "peered_path", "peered_output_kind"),
            "Boundary": ("is_captured_boundary_source", "boundary_capture_index", "boundary_arg_index", "boundary_path"),
            "Delayed": ("delayed_state", "delayed_path"),
        }
        # the record structs the table was confirmed against
        for sname, fields in (("PeeredSource", {"node", "path", "output_kind"}), ("BoundarySource", {"arg_index", "path", "captured"}), ("DelayedSource", {"state", "path"})):
            got = {f.name for f in run.tree.struct(GW, sname).fields}
            if got != fields:
                run.finding("C09.i", f"{sname}:fields-changed", f"{sname} now has fields {sorted(got)} (table confirmed for {sorted(fields)}): same_source_as must compare the "
                            "new field as well", loc=GW)
        sw = [n_ for n_ in fa.body.walk() if isinstance(n_, C.Switch)]
        if len(sw) != 1:
            raise AnalysisError("anchor-vanished", f"C09.i: {len(sw)} switch statements in same_source_as")
        stmts = sw[0].body.stmts
        cur = None
        texts: Dict[str, str] = {}
        for st in stmts:
            if isinstance(st, C.Case):
                cur = cn(st.value).split("::")[-1] if st.value is not None else "default"
                continue
            if cur is not None:
                for c in R.calls(st):
                    if isinstance(c.fn, C.Id):
                        texts[cur] = texts.get(cur, "") + f" {c.fn.name}()"
                    elif isinstance(c.fn, C.Member) and isinstance(c.fn.obj, C.Id):
                        texts[cur] = texts.get(cur, "") + f" {c.fn.obj.name}.{c.fn.name}()"
        for label, accs in WANT.items():
            run.count(len(accs), "C09.i")
            txt = texts.get(label, "")
            for a in accs:
                if not re.search(rf"(?<![.\w]){a}\(\)", txt) or not re.search(rf"other\.{a}\(\)", txt):
                    run.finding("C09.i", f"same_source_as:{label}:{a}-not-compared", f"same_source_as does not compare `{a}()` of the two {label} sources: different "
                                f"sources that agree on the remaining fields are treated as one captured input", loc=fa.loc(sw[0]))
        if run._cur is not None:
            run._cur["sites"] = sum(len(v) for v in WANT.values())

    with run.obligation("C09.j", "K2", "a wake-up pending inside a wrapped sub-graph survives a failure the wrapper captured: try_except pulls the child's next scheduled time up to "
                        "the parent after the guarded evaluation on the failing path too (an inlined timer is not affected by a sibling's exception either) (shared with C15.c)"):
        from . import c15
        R.share(run, "C09.j", c15, ["C15.c"])

    with run.obligation("C09.k", "K6", "a nested sub-graph's result is aliased to a boundary argument only when it IS that argument: every leaf of the returned structure comes "
                        "from the same boundary input at the leaf's own path (a swap / rotate / broadcast of one argument's elements is a new structure, as it is when "
                        "the sub-graph is inlined) (shared with C06.f)"):
        from . import c06
        R.share(run, "C09.k", c06, ["C06.f"])

    with run.obligation("C09.l", "K7", "a nested graph that starts samples every boundary input that has a value with the inlined node's own rule, valid() - never the "
                        "stricter all_valid() (shared with C12.m)"):
        from . import c12
        R.share(run, "C09.l", c12, ["C12.m"])

    with run.obligation("C09.m", "K7", "a sub-graph that returns one of its boundary arguments unchanged forwards that argument whatever its shape: the input side "
                        "(bind_nested_input_to_source) tells an UNBOUND peered position (is_bindable) from a NON-PEERED fixed structure (each leaf bound to its own upstream "
                        "output) and binds the latter leaf by leaf; the ParentInput arm of single_nested_graph_bind_output must make the same distinction instead of "
                        "treating `no bound output` as `upstream unbound` and clearing the forwarding tree (KNOWN FINDING F-C09-2 on the current tree)"):
        NB = "include/hgraph/runtime/nested_bindings.h"
        f_in = R.fn(run, NB, "bind_nested_input_to_source")
        in_distinguishes = bool(R.calls(f_in, "is_bindable")) and any(R.callee_name(c) == "bind_nested_input_to_source" for c in R.calls(f_in))
        f_out = R.fn(run, RT + "nested_graph_node.cpp", "single_nested_graph_bind_output")
        co = R.aliases_of(f_out)
        arms = [s0 for s0 in f_out.body.walk() if isinstance(s0, C.If) and "ParentInput" in co(s0.cond)]
        run.sites(len(arms), 1, "ParentInput arm")
        arm = arms[0].then
        clears = [s1 for s1 in arm.walk() if isinstance(s1, C.If) and re.search(r"!\w+\.bound\(\)", co(s1.cond).replace(" ", "")) and R.calls(s1.then, "clear_forwarding_output_tree")]
        leafwise = bool(R.calls(arm, "is_bindable")) or any(re.search(r"leaf|child|structur|recurs", R.callee_name(c) or "") for c in R.calls(arm)
                                                           if R.callee_name(c) not in ("clear_forwarding_output_tree", "bind_forwarding_output_tree_to_source"))
        run.count(1, "C09.m")
        run.sample({"rule": "C09.m", "input_side_distinguishes_non_peered": in_distinguishes, "output_side_clears_on_no_bound_output": bool(clears), "output_side_leafwise": leafwise})
        if not in_distinguishes:
            raise AnalysisError("model-mismatch", "C09.m: bind_nested_input_to_source no longer distinguishes is_bindable / recurses; re-read the rule")
        if clears and not leafwise:
            run.finding("C09.m", "single_nested_graph_bind_output:parent-input-structural-argument-cleared", "the pass-through (ParentInput) arm resolves "
                        "`walk_ts_path(root_input, parent_source_path).bound_output()` and clears the forwarding tree whenever that is not bound; a non-peered fixed TSL/TSB argument "
                        "({a, b} / to_tsl(a, b)) never has a bound output of its own, so nested_<G> with `return arg;` produces no output at all while the inlined G forwards the "
                        "argument", loc=f_out.loc(clears[0]))

    with run.obligation("C09.n", "K4", "two projections of one outer node captured by a nested sub-graph stay two boundary inputs (as they are two inputs when the body is inlined): the "
                        "capture de-duplication is by WiringPortRef::same_source_as only (shared with C06.j)"):
        from . import c06 as c06_
        R.share(run, "C09.n", c06_, ["C06.j"])

    with run.obligation("C09.o", "K9", "inside a nested sub-graph a node fed from declared boundary input #i and the same node fed from captured outer port #i stay two nodes (the "
                        "interning key distinguishes captured from declared boundary sources, as it does every other field of a source) (shared with C06.a)"):
        from . import c06 as c06__
        R.share(run, "C09.o", c06__, ["C06.a"])

    with run.obligation("C09.p", "K1+K4", "an output-less sub-graph called twice through nested_ runs twice (as it does inlined): the deferred-builder add_node used by nested_ / "
                        "try_except_ / map_ / mesh_ interns a node only when it HAS an output, exactly like the ordinary overload (shared with C06.b)"):
        from . import c06 as c06_b
        R.share(run, "C09.p", c06_b, ["C06.b"])

    with run.obligation("C09.q", "K11", "a passive() argument stays passive inside a nested sub-graph: the boundary placeholder the child is compiled against carries the argument's "
                        "tag (the consumer's matching input is removed from its active list exactly as when the body is inlined) - subgraph_wiring_detail::boundary_shape must "
                        "propagate `source.arg_tag` onto the placeholder it builds (KNOWN FINDING F-C09-3 on the current tree)"):
        SWH = "include/hgraph/types/subgraph_wiring.h"
        fa = R.fn(run, SWH, "boundary_shape")
        cn = R.Canon()
        mentions_tag = any(isinstance(x, C.Member) and x.name == "arg_tag" for x in fa.body.walk()) or any("arg_tag" in cn(c) or "with_tag" in cn(c) or "tagged" in cn(c) for c in R.calls(fa))
        placeholders = [c for c in R.calls(fa) if R.callee_name(c).endswith("boundary_source")]
        run.sites(len(placeholders), 1, "boundary placeholders built by boundary_shape")
        run.count(1, "C09.q")
        if not mentions_tag:
            run.finding("C09.q", "boundary_shape:argument-tag-dropped", "boundary_shape builds the child's boundary placeholder from the argument's schema only "
                        f"({cn(placeholders[0])[:90]}): the ArgTag of the outer port (passive()) reaches the outer nested node's input slot but not the consumer inside the child, which "
                        "stays active, is notified by the upstream output it is bound to, and wakes the nested node through the push half of the schedule delegation - "
                        "nested_<G>(passive(x), t) is evaluated on every tick of x, the inlined G only on t", loc=fa.loc(placeholders[0]))


def HDRX(cn, tail):
    return "graph_header(graph_context(context),graph.data())." + tail



VARIANTS = [
    {"id": "i-capture-dedup-ignores-path", "expect": "C09.i", "edits": [{"file": "include/hgraph/types/graph_wiring.h", "find": "                    return peered_node() == other.peered_node() &&\n                           peered_path() == other.peered_path() &&\n", "replace": "                    return peered_node() == other.peered_node() &&\n"}]},
    {"id": "i-capture-dedup-ignores-delayed-path", "expect": "C09.i", "edits": [{"file": "include/hgraph/types/graph_wiring.h", "find": "                    return delayed_state() == other.delayed_state() &&\n                           delayed_path() == other.delayed_path();", "replace": "                    return delayed_state() == other.delayed_state();"}]},
    {"id": "d4-revert-fix-reduce-rearm-in-loop-only", "expect": "C09.d4", "edits": [{"file": RT + "reduce_node.cpp", "find": "            if (earliest_future != MAX_DT) { view.graph().schedule_node(view.node_index(), earliest_future); }\n", "replace": ""}]},
    {"id": "g-returned-capture-without-base", "expect": "C09.g", "edits": [{"file": "src/hgraph/types/graph_wiring.cpp", "find": "              .parent_source_path = {captures.base_index +\n                                     captures.index_for(*output)},", "replace": "              .parent_source_path = {captures.index_for(*output)},"}]},
    {"id": "e-try-except-propagates-before-start", "expect": "C09.e", "edits": [{"file": RT + "try_except_node.cpp", "find": "            single_nested_graph_bind_output(nested, evaluation_time);\n            if (nested.context().options.start_child_on_start)\n            {\n                nested.child_graph().start(evaluation_time);\n                schedule_sampled_input_consumers(\n                    nested.child_graph(),\n                    evaluation_time,\n                    nested.context().spec.input_bindings);\n            }\n            single_nested_graph_propagate_schedule(nested);\n        }", "replace": "            single_nested_graph_bind_output(nested, evaluation_time);\n            single_nested_graph_propagate_schedule(nested);\n            if (nested.context().options.start_child_on_start)\n            {\n                nested.child_graph().start(evaluation_time);\n                schedule_sampled_input_consumers(\n                    nested.child_graph(),\n                    evaluation_time,\n                    nested.context().spec.input_bindings);\n            }\n        }"}]},
    {"id": "b2-evaluating-stuck-on-throw", "expect": "C09.b2", "edits": [{"file": GRAPH, "find": "  auto reset = make_scope_exit([&] noexcept { state.evaluating = false; });\n", "replace": ""}, {"file": GRAPH, "find": "        // (the enclosing mesh node resolves the dependency and resumes us).\n        return false;", "replace": "        // (the enclosing mesh node resolves the dependency and resumes us).\n        state.evaluating = false;\n        return false;"}, {"file": GRAPH, "find": "        graph_header<NestedGraphRuntimeStorage>(runtime, graph.data()));\n  }\n  return true;\n}", "replace": "        graph_header<NestedGraphRuntimeStorage>(runtime, graph.data()));\n  }\n  state.evaluating = false;\n  return true;\n}"}]},
    {"id": "a-nested-uses-root-slot", "expect": "C09.a", "edits": [{"file": GRAPH, "find": "        .schedule_node_impl = &nested_schedule_node_impl,", "replace": "        .schedule_node_impl = &schedule_node_impl<NestedGraphRuntimeStorage>,"}]},
    {"id": "b-no-clamp", "expect": "C09.b", "edits": [{"file": GRAPH, "find": "  when = std::max(when, parent.graph().evaluation_time());\n", "replace": ""}]},
    {"id": "b-wake-while-evaluating", "expect": "C09.b", "edits": [{"file": GRAPH, "find": "  if (!state.started || state.evaluating) {\n    return;\n  }", "replace": "  if (!state.started) {\n    return;\n  }"}]},
    {"id": "b-parent-at-original-time", "expect": "C09.b", "edits": [{"file": GRAPH, "find": "  when = std::max(when, parent.graph().evaluation_time());\n  schedule_node_impl<NestedGraphRuntimeStorage>(context, graph, node_index,\n                                                when);", "replace": "  const DateTime requested = when;\n  when = std::max(when, parent.graph().evaluation_time());\n  schedule_node_impl<NestedGraphRuntimeStorage>(context, graph, node_index,\n                                                when);\n  when = requested;"}]},
    {"id": "c-propagate-le", "expect": "C09.c", "edits": [{"file": GRAPH, "find": "  if (next >= MAX_DT) {\n    return;\n  }\n\n  auto parent = state.parent_node();", "replace": "  if (next >= MAX_DT || next <= state.evaluation_time) {\n    return;\n  }\n\n  auto parent = state.parent_node();"}]},
    {"id": "c-propagate-dropped", "expect": "C09.c", "edits": [{"file": GRAPH, "find": "  if constexpr (std::is_same_v<Storage, NestedGraphRuntimeStorage>) {\n    propagate_nested_parent_schedule(\n        graph_header<NestedGraphRuntimeStorage>(runtime, graph.data()));\n  }\n  return true;", "replace": "  return true;"}]},
    {"id": "d-tsl-map-pull-only-when-due", "expect": "C09.d", "edits": [{"file": RT + "tsl_map_node.cpp", "find": "                    }\n                }\n                const DateTime next = child.next_scheduled_time();\n                if (next != MAX_DT && next > evaluation_time) { view.graph().schedule_node(view.node_index(), next); }\n            }", "replace": "                    }\n                    const DateTime next = child.next_scheduled_time();\n                    if (next != MAX_DT && next > evaluation_time) { view.graph().schedule_node(view.node_index(), next); }\n                }\n            }"}]},
    {"id": "d-map-evaluate-stale-time", "expect": "C09.d", "edits": [{"file": RT + "map_node.cpp", "find": "                                                     [&] { return child.evaluate(evaluation_time); },", "replace": "                                                     [&] { return child.evaluate(child.evaluation_time()); },"}]},
    {"id": "d-switch-no-sampling", "expect": "C09.d", "edits": [{"file": RT + "switch_node.cpp", "find": "  next.start(evaluation_time);\n  schedule_sampled_input_consumers(next, evaluation_time, spec.input_bindings);", "replace": "  next.start(evaluation_time);"}]},
    {"id": "e-start-no-propagate", "expect": "C09.e", "edits": [{"file": NESTED, "find": "                nested.context().spec.input_bindings);\n        }\n        single_nested_graph_propagate_schedule(nested);\n    }\n\n    void single_nested_graph_stop", "replace": "                nested.context().spec.input_bindings);\n            single_nested_graph_propagate_schedule(nested);\n        }\n    }\n\n    void single_nested_graph_stop"}]},
    {"id": "f-copy-across-boundary", "expect": "C09.f", "edits": [{"file": NESTED, "find": "            bind_input_to_source(std::move(target), source_output);", "replace": "            bind_input_to_source(std::move(target), source_output);\n            apply_delta(source_output, source_output.delta_value());"}]},
    {"id": "b-twin-if-merged", "expect": None, "edits": [{"file": GRAPH, "find": "  if (state.child_schedule_observer != nullptr) {\n    state.child_schedule_observer(state.child_schedule_observer_context, when);\n  }", "replace": "  if (nullptr != state.child_schedule_observer) { state.child_schedule_observer(state.child_schedule_observer_context, when); }"}]},
]
