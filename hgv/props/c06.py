"""C06 - Behaviour depends on the dataflow, not on wiring order or node sharing."""
from __future__ import annotations

import re

from .. import cparse as C
from ..index import AnalysisError
from ..k1 import ANY, Expect, Role
from ..report import Run
from .. import rules as R

ID = "C06"
WIRING = "src/hgraph/types/graph_wiring.cpp"
WIRINGH = "include/hgraph/types/graph_wiring.h"
NODE = "src/hgraph/runtime/node.cpp"
NODEH = "include/hgraph/runtime/node.h"
GRAPH = "src/hgraph/runtime/graph.cpp"
GRAPHH = "include/hgraph/runtime/graph.h"

TECHNIQUE = ("field-coverage of the identity / canonicalisation equalities (K9), decision table of the intern-or-create step of both "
             "add_node overloads (K1), flow of the consumed argument tag into the identity (K11), iteration-order taint in ranking (K11)")
EXPLANATION = (
    "Decides the structural facts that make sharing and wiring order unobservable: the wiring interning key's equality covers every "
    "field of the key structs and make_key/source_key_for fill every field from the call's own arguments; the runtime canonicalisation "
    "(node schema_equivalent, graph entry_equivalent/edges_equivalent) compares every behaviour-relevant field, so differently configured "
    "nodes/graphs are never merged; both core add_node overloads intern iff the node has an output (sinks never merge), look up and insert "
    "under that same guard, create the instance only on a miss, and add_unique_node never touches the intern table; an argument tag that "
    "changes the node that is built (passive) is folded into the identity; ranking never iterates a hash container except to build an error "
    "message. Not decided: equality of output streams for every admissible statement order (needs node semantics).")
ASSUMPTIONS = ["std::unordered_map/std::vector/Value::equals compare as documented",
               "the topological order is shared with C01.a (Kahn template) which is checked there"]
DECIDED = ["a interning key complete", "a2 canonicalisation compares everything", "b sinks / unique nodes never merge",
           "c passive adjustment precedes identity", "c2 consumed argument tag is part of the identity", "d no hash-order decisions in ranking",
           'j capture de-duplication by same_source_as only']
NOT_DECIDED = ["stream equality under reordering", "side effects of user sinks"]


def _struct(run, rel, name):
    return run.tree.struct(rel, name)


def arg_tag_identity(run: Run, rule: str) -> None:
    t = run.tree
    fds = [f for f in t.funcs(WIRING, "add_node", "Wiring") if "arg_tag" in t.file(WIRING).text(f.body[0], f.body[1])]
    run.sites(len(fds), 1, "add_node overloads that consume arg_tag")
    key_fns = ["make_key", "source_key_for"]
    reads_tag = False
    for nm in key_fns:
        fa = R.fn(run, WIRING, nm)
        if any(isinstance(n, C.Member) and n.name == "arg_tag" for n in fa.body.walk()):
            reads_tag = True
    # structs compared by the key: does any carry the tag?
    carried = any(re.search(r"passive|arg_tag|tag", f.name) for nm in ("InputKey", "SourceKey") for f in _struct(run, WIRING, nm).fields)
    run.count(1, rule)
    for fd in fds:
        fa = R.parse(run, fd)
        cn = R.aliases_of(fa)
        consumes = [s for s in fa.body.walk() if isinstance(s, C.If) and "arg_tag" in cn(s.cond)]
        changes_builder = bool(R.calls(fa, "with_passive_inputs"))
        if consumes and changes_builder and not (reads_tag and carried):
            run.finding(rule, "Wiring::add_node:arg_tag-not-in-identity",
                        "Wiring::add_node builds a different node for a Passive-tagged input (with_passive_inputs) but the interning key "
                        "(make_key/source_key_for, InputKey/SourceKey) does not depend on arg_tag: passive(a)+b and a+b intern to one node "
                        "and the first wired decides the activity of both", loc=fa.loc(consumes[0]))
    # the sibling that passes: map_/mesh_ fold the tags into their config scalar
    ho = "include/hgraph/lib/std/operators/higher_order.h"
    if t.exists(ho):
        txt = t.read(ho)
        run.count(1)
        if "arg_tags" in txt and not re.search(r"arg_tags\s*==\s*\w+\.arg_tags|\w+\.arg_tags\s*==\s*arg_tags|operator==\([^)]*\)[^;{]*=\s*default", txt):
            run.finding(rule, "higher_order:arg_tags-equality", "higher-order node configs carry arg_tags but their equality does not compare them", loc=ho)



def check(run: Run) -> None:
    t = run.tree

    with run.obligation("C06.a", "K9", "InstanceKey::operator== covers def/schema/inputs/scalars; SourceKey/InputKey/WiringNodeSchema equality "
                        "is defaulted; make_key and source_key_for fill every key field"):
        ik = _struct(run, WIRING, "InstanceKey")
        fields = [f.name for f in ik.fields]
        run.sites(len(fields), 4, "InstanceKey fields")
        eq = [f for f in t.funcs(WIRING, "operator==", "InstanceKey")]
        run.sites(len(eq), 1, "InstanceKey::operator==")
        fa = R.parse(run, eq[0])
        used = {n.name for n in fa.body.walk() if isinstance(n, C.Id)} | {n.name for n in fa.body.walk() if isinstance(n, C.Member)}
        for f in fields:
            run.count(1)
            both = any(isinstance(n, C.Member) and n.name == f and R.Canon()(n.obj) == "other" for n in fa.body.walk())
            if f not in used or not both:
                run.finding("C06.a", f"InstanceKey::operator==:{f}", f"InstanceKey::operator== does not compare field `{f}`: two nodes differing "
                            f"only in {f} would be merged", loc=f"{WIRING}:{eq[0].line}")
        for nm in ("SourceKey", "InputKey"):
            sd = _struct(run, WIRING, nm)
            run.count(1)
            if "operator==" not in sd.defaulted:
                custom = [f for f in t.funcs(WIRING, "operator==", nm)]
                if not custom:
                    run.finding("C06.a", f"{nm}::operator==", f"{nm} has no defaulted operator==", loc=f"{WIRING}:{sd.line}")
                else:
                    fa2 = R.parse(run, custom[0])
                    used2 = {n.name for n in fa2.body.walk() if isinstance(n, (C.Id, C.Member))}
                    for f in sd.fields:
                        if f.name not in used2:
                            run.finding("C06.a", f"{nm}::operator==:{f.name}", f"{nm}::operator== ignores field `{f.name}`", loc=f"{WIRING}:{custom[0].line}")
        sd = _struct(run, WIRINGH, "WiringNodeSchema")
        if "operator==" not in sd.defaulted:
            run.finding("C06.a", "WiringNodeSchema::operator==", "WiringNodeSchema equality must be defaulted (all six schema pointers)", loc=WIRINGH)
        # make_key fills every InputKey field and passes (def, schema, inputs, scalars)
        fa = R.fn(run, WIRING, "make_key")
        cn = R.aliases_of(fa)
        inits = [n for n in fa.body.walk() if isinstance(n, C.Init) and n.type is not None and cn(n.type) == "InputKey"]
        run.sites(len(inits), 1, "InputKey initialiser")
        given = {e.name for e in inits[0].elems if isinstance(e, C.Desig)}
        want = {f.name for f in _struct(run, WIRING, "InputKey").fields}
        run.count(1)
        if given != want:
            run.finding("C06.a", "make_key:InputKey", f"make_key leaves InputKey fields at their default: {sorted(want - given)}", loc=fa.loc(inits[0]))
        d = {e.name: cn(e.value) for e in inits[0].elems if isinstance(e, C.Desig)}
        if d.get("source") != "source_key_for(inputs[index].source)" or "inputs[index].target_path" not in d.get("target_path", "") \
                or d.get("rank_dependency") != "inputs[index].rank_dependency":
            run.finding("C06.a", "make_key:InputKey-values", f"InputKey must be built from the same input it describes: {d}", loc=fa.loc(inits[0]))
        kd = [n for n in fa.body.walk() if isinstance(n, C.Declarator) and n.name == "key"]
        if not kd or [cn(x) for x in kd[0].init.elems][:2] != ["def", "schema"] or cn(kd[0].init.elems[-1]) != "scalars":
            run.finding("C06.a", "make_key:InstanceKey", "the key must be built from (def, schema, inputs, scalars)", loc=WIRING)
        lp = [l for l in R.loops(fa) if isinstance(l, C.For)]
        sh = R.loop_shape(lp[0], cn) if lp else {}
        if not lp or sh.get("init") != "0" or sh.get("cond_r") != "inputs.size()" or sh["breaks"] or sh["continues"]:
            run.finding("C06.a", "make_key:loop", f"every input must enter the key: {sh}", loc=WIRING)
        # source_key_for writes every SourceKey field
        fa = R.fn(run, WIRING, "source_key_for")
        cn = R.aliases_of(fa)
        written = {e.name for n in fa.body.walk() if isinstance(n, C.Init) for e in n.elems if isinstance(e, C.Desig)}
        written |= {n.l.name for n in fa.body.walk() if isinstance(n, C.Binary) and n.op == "=" and isinstance(n.l, C.Member) and cn(n.l.obj) == "key"}
        written |= {c.fn.obj.name for c in R.calls(fa) if isinstance(c.fn, C.Member) and isinstance(c.fn.obj, C.Member) and cn(c.fn.obj.obj) == "key"
                    and c.fn.name in ("push_back", "reserve", "emplace_back")}
        want = {f.name for f in _struct(run, WIRING, "SourceKey").fields}
        run.count(len(want))
        if want - written:
            run.finding("C06.a", "source_key_for:fields", f"source_key_for never fills SourceKey fields {sorted(want - written)}", loc=WIRING)

    with run.obligation("C06.a2", "K9", "runtime canonicalisation: node schema_equivalent covers every NodeTypeMetaData field (except the derived "
                        "header), edges_equivalent every GraphEdge field, entry_equivalent label/nodes/edges/push prefix/pooled flag; "
                        "resolved_schema_of maps the six schema fields positionally"):
        sd = _struct(run, NODEH, "NodeTypeMetaData")
        fa = R.fn(run, NODE, "schema_equivalent", cls="NodeRuntimeRegistry")
        txt = R.Canon()(R.find(fa, lambda n: isinstance(n, C.Return))[-1].e) + " " + " ".join(
            R.Canon()(d.init) for d in R.find(fa, lambda n: isinstance(n, C.Declarator) and n.init is not None))
        run.sites(len(sd.fields), 20, "NodeTypeMetaData fields")
        for f in sd.fields:
            if f.name == "header" or f.is_static:
                continue
            run.count(1)
            if f"lhs.{f.name}" not in txt or f"rhs.{f.name}" not in txt:
                run.finding("C06.a2", f"schema_equivalent:{f.name}", f"NodeRuntimeRegistry::schema_equivalent ignores NodeTypeMetaData::{f.name}: "
                            f"two node types differing only in it would be canonicalised onto one", loc=NODE)
                continue
            # the field must be compared AS A WHOLE: `lhs.f == rhs.f`, a helper over both (`eq(lhs.f, rhs.f)`), or through locals derived from it
            whole = re.search(rf"(?<![\w.])(lhs\.{f.name}==rhs\.{f.name}|rhs\.{f.name}==lhs\.{f.name})(?![\w.(])", txt.replace(" ", "")) or \
                re.search(rf"\w+\(lhs\.{f.name},rhs\.{f.name}\)", txt.replace(" ", ""))
            via_local = [d.name for d in R.find(fa, lambda n: isinstance(n, C.Declarator) and n.init is not None) if f"lhs.{f.name}" in R.Canon()(d.init)]
            if not whole and not via_local:
                run.finding("C06.a2", f"schema_equivalent:{f.name}:partial", f"NodeRuntimeRegistry::schema_equivalent compares only a part of NodeTypeMetaData::{f.name} "
                            "(not the whole field): node types that differ in it would be canonicalised onto one", loc=NODE)
        fa = R.fn(run, NODE, "find_canonical", cls="NodeRuntimeRegistry")
        cn = R.aliases_of(fa)
        ctext = " ".join(cn(s.cond) for s in fa.body.walk() if isinstance(s, C.If))
        alltxt = ctext + " " + " ".join(cn(c) for c in R.calls(fa))
        for need in (("canonical_types.find(runtime_type_id)",), ("plan()==&plan", "&plan==plan()"), ("implementation_name()==implementation_label", "implementation_label==implementation_name()"),
                     ("schema_equivalent(",)):
            run.count(1)
            if not any(re.search(re.escape(n).replace(re.escape("plan()"), r"\S*plan\(\)").replace(re.escape("implementation_name()"), r"\S*implementation_name\(\)"), alltxt) for n in need):
                run.finding("C06.a2", f"find_canonical:{need[0]}", f"find_canonical no longer requires {need[0]}", loc=NODE)
        ge = _struct(run, GRAPHH, "GraphEdge")
        fa = R.fn(run, GRAPH, "edges_equivalent", cls="GraphRuntimeRegistry")
        txt = R.Canon()(R.find(fa, lambda n: isinstance(n, C.Return))[-1].e)
        for f in ge.fields:
            run.count(1)
            if f"lhs.{f.name}==rhs.{f.name}" not in txt and f"rhs.{f.name}==lhs.{f.name}" not in txt:
                run.finding("C06.a2", f"edges_equivalent:{f.name}", f"edges_equivalent ignores GraphEdge::{f.name}", loc=GRAPH)
        fa = R.fn(run, GRAPH, "entry_equivalent", cls="GraphRuntimeRegistry")
        cn = R.aliases_of(fa)
        ctext = " ".join(cn(s.cond) for s in fa.body.walk() if isinstance(s, C.If))
        conds = [cn(s0.cond) for s0 in fa.body.walk() if isinstance(s0, C.If)]

        def has_cmp(text, op, a, b):
            if a.startswith("."):  # a field of some element, e.g. `<x>.type != builder...`
                return any(op in c and b in c and (c.endswith(a) or (a + op) in c or (a + ")") in c) for c in conds)
            return f"{a}{op}{b}" in text or f"{b}{op}{a}" in text
        for (a, b), what in ((("entry.schema.name()", "builder.label()"), "label"), (("entry.schema.nodes.size()", "builder.nodes().size()"), "node count"),
                             (("entry.schema.edges.size()", "builder.edges().size()"), "edge count"),
                             (("entry.schema.push_source_nodes_end", "compute_push_source_nodes_end(builder)"), "push-source prefix"),
                             ((".type", "builder.nodes()[index].type()"), "node types"),
                             (("graph_has_compound_scalar_storage(entry.root_context)", ""), "pooled storage flag")):
            run.count(1)
            if not has_cmp(ctext, "!=", a, b):
                run.finding("C06.a2", f"entry_equivalent:{what}", f"GraphRuntimeRegistry::entry_equivalent no longer compares the {what}", loc=GRAPH)
        run.count(1)
        if "!edges_equivalent(entry.schema.edges[index],builder.edges()[index])" not in ctext:
            run.finding("C06.a2", "entry_equivalent:edges", "GraphRuntimeRegistry::entry_equivalent no longer compares the edges", loc=GRAPH)
        for l in [x for x in R.loops(fa) if isinstance(x, C.For)]:
            sh = R.loop_shape(l, cn)
            if sh.get("init") != "0" or sh["breaks"] or sh["continues"] or sh.get("step") != "++":
                run.finding("C06.a2", "entry_equivalent:loop", f"every node / edge must be compared: {sh}", loc=GRAPH)
        fa = R.fn(run, WIRING, "resolved_schema_of")
        cn = R.aliases_of(fa)
        inits = [n for n in fa.body.walk() if isinstance(n, C.Init) and len(n.elems) == 6]
        run.sites(len(inits), 1, "six-field schema initialiser")
        got = [cn(e) for e in inits[0].elems]
        names = [f.name for f in _struct(run, WIRINGH, "WiringNodeSchema").fields]
        run.count(1)
        if [g.split("->")[-1].replace("_schema", "") for g in got] != names:
            run.finding("C06.a2", "resolved_schema_of:positional", f"schema fields {got} do not map positionally onto {names}", loc=WIRING)

    with run.obligation("C06.b", "K1+K4", "both add_node overloads: interns iff the node has an output; lookup and insertion under that guard; the "
                        "instance (and a deferred builder) is created only on a miss; add_unique_node never touches the intern table"):
        fds = [f for f in t.funcs(WIRING, "add_node", "Wiring") if "interned" in t.file(WIRING).text(f.body[0], f.body[1])]
        run.sites(len(fds), 2, "core add_node overloads")
        for fd in fds:
            fa = R.parse(run, fd)
            lam = [d.init for d in R.find(fa, lambda n: isinstance(n, C.Declarator) and n.name == "add" and isinstance(n.init, C.Lambda))]
            run.sites(len(lam), 1, "add lambda")
            deferred = "make_builder" in [p[1] for p in fa.params]
            roles = [Role("NOOUT", "bool", r"nullptr==(resolved_schema_of\(builder\)|schema)\.output"),
                     Role("MISS", "bool", r"impl_->interned\.end\(\)==impl_->interned\.find\(.*\)")]

            def spec(v, deferred=deferred):
                calls = [("MAKEKEY", ("anyargs",))]
                if not v.b("NOOUT"):
                    calls.append(("FIND", (ANY,)))
                    if not v.b("MISS"):
                        return Expect(calls=calls, throws="may")
                if deferred:
                    calls.append(("BUILDER", ()))
                calls.append(("CREATE", ()))
                if not v.b("NOOUT"):
                    calls.append(("INTERN", (ANY, ANY)))
                return Expect(calls=calls, throws="may")
            R.k1(run, "C06.b", fa, roles, spec, unit=lam[0].body,
                 role_calls={"MAKEKEY": r"make_key", "FIND": r"impl_->interned\.find", "BUILDER": r"make_builder",
                             "CREATE": r"impl_->instances\.emplace_back", "INTERN": r"impl_->interned\.(emplace|insert|try_emplace)"},
                 what=f"Wiring::add_node ({'deferred' if deferred else 'eager'}) intern-or-create")
            cn = R.aliases_of(fa)
            mk = R.calls(lam[0].body, "make_key")
            args = [cn(a) for a in mk[0].args] if mk else []
            if args != ["def", "schema", "inputs", "scalars"] and args != ["def", "resolved_schema_of(builder)", "inputs", "scalars"]:
                run.finding("C06.b", f"add_node:key-args:{'deferred' if deferred else 'eager'}", f"the key must be built from this call's (def, schema, inputs, scalars): {args}",
                            loc=fa.loc(mk[0]) if mk else WIRING)
        for fd in t.funcs(WIRING, "add_unique_node", "Wiring"):
            body = t.file(WIRING).text(fd.body[0], fd.body[1])
            run.count(1)
            if "interned" in body or "make_key" in body:
                run.finding("C06.b", "add_unique_node:interned", "add_unique_node must not consult or populate the intern table", loc=f"{WIRING}:{fd.line}")
        ctl = "include/hgraph/lib/std/operators/control.h"
        txt = t.read(ctl)
        run.count(1)
        m = re.search(r"make_feedback[\s\S]{0,4000}?add_unique_node", txt)
        if not m:
            run.finding("C06.b", "make_feedback:unique", "feedback sources must be created through add_unique_node (two feedbacks of one schema stay distinct)", loc=ctl)

    with run.obligation("C06.c", "K2", "the passive adjustment of the builder precedes the computation of the node identity"):
        fds = [f for f in t.funcs(WIRING, "add_node", "Wiring") if "with_passive_inputs" in t.file(WIRING).text(f.body[0], f.body[1])]
        run.sites(len(fds), 1, "add_node with passive handling")
        fa = R.parse(run, fds[0])
        fl = R.flow(run, fa)
        R.k2_never_after(run, "C06.c", fl, R.either(R.call_is(name="resolved_schema_of"), R.call_is(name="make_key")),
                         R.call_is(name="with_passive_inputs"), "passive adjustment after the identity was computed")

    with run.obligation("C06.c2", "K11", "an argument tag that changes the node being built is folded into the interning identity"):
        arg_tag_identity(run, "C06.c2")

    with run.obligation("C06.d", "K11", "build_ranked_graph iterates hash containers only to build the cycle error message"):
        fa = R.fn(run, WIRING, "build_ranked_graph")
        cn = R.aliases_of(fa)
        unordered = {nm for ty, nm in fa.params if "unordered_" in ty}
        for n in fa.body.walk():
            if isinstance(n, C.Decl) and "unordered_" in n.type:
                for d in n.decls:
                    unordered.add(d.name)
        run.sites(len(unordered), 3, "hash containers")
        cyc = [s for s in fa.body.stmts if isinstance(s, C.If) and cn(s.cond).replace(" ", "") in ("ranked.size()!=all.size()", "all.size()!=ranked.size()")]
        run.sites(len(cyc), 1, "cycle-error block")
        n = 0
        for l in R.loops(fa):
            rng = None
            if isinstance(l, C.RangeFor):
                rng = cn(l.range)
            elif isinstance(l, C.For) and l.init is not None:
                rng = cn(l.init) if not isinstance(l.init, C.Decl) else " ".join(cn(d.init) for d in l.init.decls if d.init is not None)
            if rng is None:
                continue
            base = re.match(r"\*?([A-Za-z_]\w*)", rng)
            n += 1
            run.count(1)
            if base and base.group(1) in unordered and (rng == base.group(1) or rng.startswith(base.group(1) + ".begin") or rng == "*" + base.group(1)):
                if not R._contains(cyc[0].then, l):
                    run.finding("C06.d", f"build_ranked_graph:iterates:{base.group(1)}", f"ranking iterates the hash container `{base.group(1)}`: the "
                                f"resulting order depends on pointer hashing, not on the dataflow", loc=fa.loc(l))
        run.sites(n, 6, "loops in build_ranked_graph")

    with run.obligation("C06.e", "K2/K3+K7", "the rank pass makes evaluation order a function of the dependencies alone: Kahn template with paired "
                        "in-degree/consumer updates, every edge-producing source kind ranked (shared with C01.a, C01.b)"):
        from . import c01
        sub = Run("C06", run.tier, run.tree, quiet=True)
        sub.is_sub = True
        if not getattr(run, "is_sub", False):
            c01.check(sub)
        run.evaluations += sub.evaluations
        run.count(1, "C06.e")
        for f in sub.findings:
            if f.rule in ("C01.a", "C01.b"):
                run.finding("C06.e", f.key, f.message, f.loc)
        for e in sub.errors:
            if e.startswith(("C01.a", "C01.b")):
                raise AnalysisError("model-mismatch", e)

    with run.obligation("C06.f", "K6", "a structural sub-graph output is treated as 'boundary input k passed through unchanged' only if EVERY leaf is the matching "
                        "path of the SAME boundary input: the first leaf fixes the ordinal and any later leaf with another ordinal rejects the shortcut"):
        fa = R.fn(run, WIRING, "structural_boundary_ordinal")
        cn = R.aliases_of(fa)
        blk = [s0 for s0 in fa.body.walk() if isinstance(s0, C.If) and cn(s0.cond).replace(" ", "") == "part.is_boundary_source()"]
        run.sites(len(blk), 1, "boundary-source branch")
        locals_ = {d.name: cn(d.init) for d in R.find(blk[0].then, lambda n: isinstance(n, C.Declarator) and n.init is not None)}
        res = lambda x: locals_.get(x, x)
        rejects = []
        for s0 in blk[0].then.walk():
            if isinstance(s0, C.If) and [cn(r.e) for r in R.find(s0.then, lambda n: isinstance(n, C.Return))] == ["false"]:
                rejects.append(cn(s0.cond).replace(" ", ""))
        asg = [res(cn(n.r)) for n in blk[0].then.walk() if isinstance(n, C.Binary) and n.op == "=" and cn(n.l) == "ordinal"]
        run.count(1, "C06.f")
        ord_expr = "captures.boundary_ordinal(part)"
        has_path = any("boundary_path()" in r and "expected_path" in r for r in rejects)
        has_ord = any("ordinal.has_value()" in r and "*ordinal" in r and "!=" in r and
                      (ord_expr in r or any(k in r and v == ord_expr for k, v in locals_.items())) for r in rejects)
        if not has_path or not has_ord or asg != [ord_expr]:
            run.finding("C06.f", "structural_boundary_ordinal:mixed-ordinals-accepted", "the pass-through shortcut must be rejected when a leaf comes from a different "
                        f"path or a different boundary input than the first leaf (rejects: {rejects}; ordinal := {asg}): an output assembled from parts of "
                        "several inputs would be aliased to one of them", loc=fa.loc(blk[0]))

    with run.obligation("C06.g", "K4", "'all sink nodes always remain distinct' also holds for sinks INSIDE a child graph: a node that owns a child graph "
                        "(nested_, try_except_, map_, switch_, reduce_, mesh_ ...) is shared between two identical wirings only if the child graph contains no "
                        "sink node (KNOWN FINDINGS F-C06-2 on the current tree: the decision looks at the owner's own output only)"):
        OWNER_BUILDERS = ("nested_graph_node", "try_except_node", "map_node", "tsl_map_node", "switch_node", "reduce_node", "ordered_reduce_node", "mesh_node",
                          "single_nested_graph_node")
        n = 0
        for rel in ("include/hgraph/types/subgraph_wiring.h", "include/hgraph/lib/std/operators/impl/higher_order_impl.h"):
            fi = t.file(rel)
            for fd in fi.funcs:
                if fd.body is None:
                    continue
                body = fi.text(fd.body[0], fd.body[1])
                if "add_node" not in body or not any(b + " (" in body for b in OWNER_BUILDERS):
                    continue
                fa = R.parse(run, fd, strict=False)
                cn = R.aliases_of(fa)
                adds = [c for c in R.calls(fa) if R.callee_name(c).split("::")[-1] == "add_node" and isinstance(c.fn, C.Member)]
                owners = [c for c in R.calls(fa) if R.callee_name(c).split("::")[-1] in OWNER_BUILDERS]
                if not adds or not owners:
                    continue
                n += 1
                run.count(1, f"C06.g.{fd.name}")
                guard = [s0 for s0 in fa.body.walk() if isinstance(s0, (C.If, C.Ternary)) and re.search(r"sink", cn(s0.cond if isinstance(s0, C.If) else s0.c), re.I)]
                if not guard:
                    run.finding("C06.g", f"{fd.name}:owner-interned-regardless-of-inner-sinks", f"{fd.qual} adds a node that owns a child graph "
                                f"({R.callee_name(owners[0])}) through the interning add_node without looking at the child graph's sink nodes: two identical "
                                "wirings share one child graph and every sink inside it runs once instead of twice", loc=fa.loc(adds[0]))
        run.sites(n, 3, "owner wiring sites")

    with run.obligation("C06.h", "K4+K7", "the definition identity under which an operator node is interned separates the runtime node kinds: every `*_node_tag` declared in "
                        "the operator layer is the identity of exactly ONE wiring function and every declared tag is used - two wiring functions that build different "
                        "runtime nodes from the same (schema, inputs, scalars) must not share a tag, or whichever is wired first serves both call sites"):
        OPS = ("include/hgraph/lib/std/operators/impl/higher_order_impl.h", "include/hgraph/lib/std/operators/control.h")
        declared: Dict[str, str] = {}
        used: Dict[str, set] = {}
        for rel in OPS:
            fi_ = run.tree.file(rel)
            for sd in fi_.structs:
                if sd.name.endswith("_node_tag"):
                    declared[sd.name] = rel
            toks = fi_.toks
            for fd_ in fi_.funcs:
                if fd_.body is None:
                    continue
                a, b = fd_.body
                for k in range(a, b):
                    if toks[k].text == "typeid" and toks[k + 1].text == "(":
                        j = fi_.match[k + 1] if hasattr(fi_, "match") else None
                        name = None
                        q = k + 2
                        while q < b and toks[q].text != ")":
                            if toks[q].kind == "id":
                                name = toks[q].text
                            q += 1
                        if name and name.endswith("_node_tag"):
                            used.setdefault(name, set()).add(fd_.qual)
        run.count(len(declared), "C06.h")
        if run._cur is not None:
            run._cur["sites"] = len(declared)
        if len(declared) < 14:
            raise AnalysisError("anchor-vanished", f"C06.h: {len(declared)} node tags declared in the operator layer, expected at least 14")
        for tag in sorted(declared):
            fns = sorted(used.get(tag, ()))
            if not fns:
                run.finding("C06.h", f"{tag}:declared-but-unused", f"{tag} is declared as a node definition identity but no wiring function uses it: the node kind it was "
                            "declared for is being interned under another kind's tag", loc=declared[tag])
            elif len(fns) > 1:
                run.finding("C06.h", f"{tag}:shared-by-{len(fns)}-wiring-functions", f"{tag} is the interning identity of {fns}: nodes of different runtime kinds built from "
                            "the same schema, inputs and scalars are merged into one", loc=declared[tag])
        for tag in sorted(set(used) - set(declared)):
            raise AnalysisError("model-mismatch", f"C06.h: tag {tag} used but its declaration was not indexed")

    with run.obligation("C06.i", "K11", "switch_ / dispatch_ bind keyword arguments to branch parameters BY NAME, so the keyword names are part of what the node does: they "
                        "flow into the interning identity of the node (its input schema or its configuration value) - two calls that pass the same sources under "
                        "different keywords must not be merged (found F-C06-3)"):
        HOI = "include/hgraph/lib/std/operators/impl/higher_order_impl.h"
        n_ok = 0
        for wname in ("wire_switch", "wire_dispatch"):
            fa = R.fn(run, HOI, wname)
            run.count(1, "C06.i")
            t_ = R.taint_closure(fa, ["kwargs"])
            calls_ = R.calls(fa, "add_compiled_switch")
            if len(calls_) != 1:
                raise AnalysisError("anchor-vanished", f"C06.i: {wname} has {len(calls_)} add_compiled_switch calls")
            call = calls_[0]
            callee = R.fn(run, HOI, "add_compiled_switch")
            params = [nm for ty, nm in callee.params]
            # the locals that receive the NAMES (kwargs[i].first); `ts` only receives kwargs[i].second (the source)
            name_seeds = set()
            for n_ in fa.body.walk():
                if isinstance(n_, C.Call) and isinstance(n_.fn, C.Member) and n_.fn.name in ("push_back", "emplace_back") and isinstance(n_.fn.obj, C.Id):
                    if any("kwargs" in R.Canon()(a) and ".first" in R.Canon()(a) for a in n_.args):
                        name_seeds.add(n_.fn.obj.name)
            if not name_seeds:
                raise AnalysisError("anchor-vanished", f"C06.i: no local of {wname} receives the keyword names")
            name_vars = R.taint_closure(fa, name_seeds)
            carrying = [params[i] for i, a in enumerate(call.args) if i < len(params) and any(isinstance(x, C.Id) and x.name in name_vars for x in a.walk())]
            reaches = False
            if carrying:
                ct = R.taint_closure(callee, carrying)
                for an in R.calls(callee, "add_node"):
                    # identity arguments of Wiring::add_node: definition, schema, inputs, scalars (the builder lambda is not identity)
                    ident_args = [a for a in an.args if not isinstance(a, C.Lambda)]
                    if any(isinstance(x, C.Id) and x.name in ct for a in ident_args for x in a.walk()):
                        reaches = True
            if reaches:
                n_ok += 1
            else:
                run.finding("C06.i", f"{wname}:keyword-names-not-in-identity", f"{wname}: the keyword names ({'passed as ' + ', '.join(carrying) if carrying else 'not passed at all'}) "
                            "do not reach the interning identity of the switch node (definition tag, node schema, inputs, configuration): `f(k, cases, a=x, b=y)` and "
                            "`f(k, cases, b=x, a=y)` intern to ONE node and the second call silently gets the first call's binding", loc=fa.loc(call))

    with run.obligation("C06.j", "K4", "captured outer ports are merged only when they are the SAME source: OuterCaptureCollector::index_for decides with "
                        "WiringPortRef::same_source_as (whose per-kind field comparison C09.i checks) and with nothing weaker - a hand-written comparison that forgets the "
                        "projection path gives two same-schema projections of one outer node ONE boundary slot, and the second consumer silently reads the first element"):
        GWC = "src/hgraph/types/graph_wiring.cpp"
        fa = R.fn(run, GWC, "OuterCaptureCollector::index_for")
        cn = R.Canon()
        rets = [s0 for s0 in fa.body.walk() if isinstance(s0, C.If) and any(isinstance(x, C.Return) for x in s0.then.walk()) and
                any(isinstance(l, (C.For, C.RangeFor, C.While)) and any(y is s0 for y in l.body.walk()) for l in fa.body.walk())]
        run.sites(len(rets), 1, "de-duplication test inside the capture scan")
        for s0 in rets:
            run.count(1, "C06.j")
            c = cn(s0.cond).replace(" ", "")
            if not re.fullmatch(r"[\w\[\].]+\.same_source_as\(outer\)|outer\.same_source_as\([\w\[\].]+\)", c):
                run.finding("C06.j", "OuterCaptureCollector::index_for:dedup-not-by-same-source", f"an existing capture is re-used when `{c[:160]}` instead of "
                            "`captured[i].same_source_as(outer)`: captures that differ in a field the hand-written test does not compare share one boundary input", loc=fa.loc(s0))


VARIANTS = [
    {"id": "j-seed-C06-8-capture-dedup-ignores-path", "expect": "C06.j", "edits": [{"file": "src/hgraph/types/graph_wiring.cpp", "find": "      if (captured[index].same_source_as(outer)) {", "replace": "      const WiringPortRef &entry = captured[index];\n      if (entry.is_peered_source() && entry.schema == outer.schema && entry.peered_node() == outer.peered_node() &&\n          entry.peered_output_kind() == outer.peered_output_kind()) {"}]},
    {"id": "i-revert-fix-keyword-names-not-in-identity", "expect": "C06.i", "edits": [{"file": "include/hgraph/lib/std/operators/impl/higher_order_impl.h", "find": "                    if (slot == i) { field_name += \":\" + name; }", "replace": "                    static_cast<void>(name); static_cast<void>(slot);"}]},
    {"id": "i-dispatch-drops-names", "expect": "C06.i", "edits": [{"file": "include/hgraph/lib/std/operators/impl/higher_order_impl.h", "find": "                Value{cases}, std::type_index(typeid(dispatch_switch_node_tag)), \"dispatch_\",\n                {named_slots.data(), named_slots.size()});", "replace": "                Value{cases}, std::type_index(typeid(dispatch_switch_node_tag)), \"dispatch_\");"}]},
    {"id": "h-ordered-reduce-uses-associative-tag", "expect": "C06.h", "edits": [{"file": "include/hgraph/lib/std/operators/impl/higher_order_impl.h", "find": "                std::type_index(typeid(reduce_ordered_tsd_node_tag)),", "replace": "                std::type_index(typeid(reduce_tsd_node_tag)),"}]},
    {"id": "f-first-leaf-ordinal-wins", "expect": "C06.f", "edits": [{"file": WIRING, "find": "      const std::size_t part_ordinal = captures.boundary_ordinal(part);\n      if (ordinal.has_value() && *ordinal != part_ordinal) {\n        return false;\n      }\n      ordinal = part_ordinal;", "replace": "      if (!ordinal.has_value()) {\n        ordinal = captures.boundary_ordinal(part);\n      }"}]},
    {"id": "a2-active-inputs-compared-by-presence-only", "expect": "C06.a2", "edits": [{"file": NODE, "find": "                   lhs.active_inputs == rhs.active_inputs &&\n", "replace": "                   lhs.active_inputs.has_value() == rhs.active_inputs.has_value() &&\n"}]},
    {"id": "e-dedup-indegree-only", "expect": "C06.e", "edits": [{"file": WIRING, "find": "        ++indegree[instance];\n        consumers[producer].push_back(instance);\n      }\n    }\n    for (const WiringInstance *producer : instance->rank_dependencies) {", "replace": "        auto &dependants = consumers[producer];\n        if (dependants.empty() || dependants.back() != instance) {\n          ++indegree[instance];\n        }\n        dependants.push_back(instance);\n      }\n    }\n    for (const WiringInstance *producer : instance->rank_dependencies) {"}]},
    {"id": "a-eq-ignores-scalars", "expect": "C06.a", "edits": [{"file": WIRING, "find": "    if (scalars.has_value() != other.scalars.has_value()) {\n      return false;\n    }\n    if (!scalars.has_value()) {\n      return true;\n    }\n    return scalars.equals(other.scalars);", "replace": "    return true;"}]},
    {"id": "a-inputkey-custom-eq", "expect": "C06.a", "edits": [{"file": WIRING, "find": "  bool passive{false};\n\n  bool operator==(const InputKey &) const noexcept = default;", "replace": "  bool passive{false};\n\n  bool operator==(const InputKey &other) const noexcept { return source == other.source && target_path == other.target_path; }"}]},
    {"id": "a-make-key-drops-path", "expect": "C06.a", "edits": [{"file": WIRING, "find": "        .target_path = input.target_path.empty()\n                           ? std::vector<std::size_t>{index}\n                           : input.target_path,\n", "replace": ""}]},
    {"id": "a2-equiv-ignores-valid-inputs", "expect": "C06.a2", "edits": [{"file": NODE, "find": "                   lhs.valid_inputs == rhs.valid_inputs &&\n", "replace": ""}]},
    {"id": "a2-edges-ignore-path", "expect": "C06.a2", "edits": [{"file": GRAPH, "find": "           lhs.source_path == rhs.source_path &&\n", "replace": ""}]},
    {"id": "a2-entry-ignores-push-prefix", "expect": "C06.a2", "edits": [{"file": GRAPH, "find": "        entry.schema.push_source_nodes_end !=\n            compute_push_source_nodes_end(builder) ||\n", "replace": ""}]},
    {"id": "b-sinks-interned", "expect": "C06.b", "edits": [{"file": WIRING, "find": "  const bool interns = schema.output != nullptr;\n\n  InstanceKey key = make_key(def, schema, inputs, scalars);", "replace": "  const bool interns = true;\n\n  InstanceKey key = make_key(def, schema, inputs, scalars);"}]},
    {"id": "b-insert-unguarded", "expect": "C06.b", "edits": [{"file": WIRING, "find": "    instance.inputs.assign(inputs.begin(), inputs.end());\n    if (interns) {\n      impl_->interned.emplace(std::move(key), &instance);\n    }\n\n    return WiringPortRef::peered_source(&instance, {},\n                                        output_schema_of(instance));\n  };\n  if (!has_wiring_observers()) {\n    return add();\n  }\n\n  std::vector<WiringTypeHandle> input_types;", "replace": "    instance.inputs.assign(inputs.begin(), inputs.end());\n    impl_->interned.emplace(std::move(key), &instance);\n\n    return WiringPortRef::peered_source(&instance, {},\n                                        output_schema_of(instance));\n  };\n  if (!has_wiring_observers()) {\n    return add();\n  }\n\n  std::vector<WiringTypeHandle> input_types;"}]},
    {"id": "c2-revert-fix", "expect": "C06", "edits": [{"file": WIRING, "find": "        .passive = input.source.arg_tag == WiringPortRef::ArgTag::Passive,\n", "replace": ""}]},
    {"id": "c2-revert-fix-fully", "expect": "C06.c2", "edits": [{"file": WIRING, "find": "        .passive = input.source.arg_tag == WiringPortRef::ArgTag::Passive,\n", "replace": ""}, {"file": WIRING, "find": "  bool passive{false};\n", "replace": ""}, {"file": WIRING, "find": "      combine(h, std::hash<bool>{}(input.passive));\n", "replace": ""}]},
    {"id": "d-rank-from-hash-order", "expect": "C06.d", "edits": [{"file": WIRING, "find": "  for (const WiringInstance *instance :\n       all) // insertion order → stable tie-break\n  {", "replace": "  for (const auto &[instance, degree_unused] : indegree)\n  {"}]},
    {"id": "a-twin-eq-order", "expect": None, "edits": [{"file": WIRING, "find": "    if (def != other.def || !(schema == other.schema) ||\n        inputs != other.inputs) {", "replace": "    if (inputs != other.inputs || def != other.def || !(schema == other.schema)) {"}]},
]
