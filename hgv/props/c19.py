"""C19 - Operator resolution picks the unique most specific match, consistently."""
from __future__ import annotations

import re

from .. import cparse as C
from ..index import AnalysisError
from ..k1 import ANY, Expect, Role
from ..report import Run
from .. import rules as R

ID = "C19"
DISP = "src/hgraph/types/operator_dispatch.cpp"
DISPH = "include/hgraph/types/operator_dispatch.h"
PAT = "src/hgraph/types/type_pattern.cpp"
PATH = "include/hgraph/types/type_pattern.h"
RES = "include/hgraph/types/type_resolution.h"

TECHNIQUE = ("loop-shape and scope rules on the candidate loop (K3/K2), always-throws path rules and dominance of the ambiguity test (K2), "
             "decision tables of the binding functions (K1), exhaustiveness of the pattern-kind switches (K10), hash-order taint (K11)")
EXPLANATION = (
    "Decides from operator_dispatch.cpp / type_pattern.cpp / type_resolution.h: every registered candidate is tried (no early exit; the only "
    "`continue` follows a failed argument normalisation), each with its own fresh bindings / normalised call / rank adjustment, and becomes a "
    "survivor iff try_match succeeded, at rank impl.rank + adjustment; no survivors always throws (requirements vs resolution error by the "
    "recorded flag); the comparator is the strict rank order; two equally-ranked best survivors always throw, and that test dominates every "
    "use of the winner - so the winner never depends on registration order; the result is built entirely from the winning survivor; type "
    "variables bind consistently (a second different binding throws); every pattern kind is handled by match, rank and resolve with Concrete "
    "the most and Var the least specific; no decision iterates a hash container. Not decided: that the numeric rank formula orders every pair "
    "of patterns by specificity; Python-side overloads.")
ASSUMPTIONS = ["std::stable_sort with a strict weak order puts a minimum-rank survivor first", "try_match/normalize_call are pure w.r.t. other candidates"]
DECIDED = ["a every candidate tried with fresh state", "b outcome table", "c no hash-order decisions", "d consistent binding", "e kind coverage",
           "f result taken from the winner",
           'l input matcher keeps input semantics at every depth; is-a direction',
           'm every occurrence of a constrained variable re-checks its constraints']
NOT_DECIDED = ["rank formula vs specificity for all pattern pairs", "Python-side overloads"]


def _resolve(run):
    fds = [f for f in run.tree.funcs(DISP, "resolve", "OperatorRegistry") if "survivors" in run.tree.file(DISP).text(f.body[0], f.body[1])]
    if len(fds) != 1:
        raise AnalysisError("anchor-vanished", f"OperatorRegistry::resolve matched {len(fds)}")
    return R.parse(run, fds[0])


def check(run: Run) -> None:
    t = run.tree

    with run.obligation("C19.a", "K3+K2", "the candidate loop visits every overload with fresh map/call/rank_adjustment; continue only after a "
                        "failed normalize_call; survivor iff try_match, ranked impl.rank + rank_adjustment"):
        fa = _resolve(run)
        cn = R.aliases_of(fa)
        lp = [l for l in R.loops(fa, into_lambdas=False) if isinstance(l, C.RangeFor) and R.calls(l.body, "try_match")]
        run.sites(len(lp), 1, "candidate loop")
        loop = lp[0]
        sh = R.loop_shape(loop, cn)
        run.count(1, "C19.a.shape")
        itd = R.find(fa, lambda n: isinstance(n, C.Declarator) and n.name == "it" and n.init is not None)
        if sh.get("range") != "it->second" or not itd or cn(itd[0].init) != "overloads_.find(std::string{name})" or sh["breaks"] or sh["returns"]:
            run.finding("C19.a", "resolve:loop", f"every registered overload must be tried (no break/return): {sh}", loc=fa.loc(loop))
        conts = [s for s in loop.body.walk() if isinstance(s, C.If) and any(isinstance(x, C.Continue) for x in R._own_jumps(s.then))]
        allowed = {"!normalize_call(impl,args,call,why)"}
        for s in conts:
            run.count(1)
            if cn(s.cond) not in allowed:
                run.finding("C19.a", f"resolve:skip:{cn(s.cond)[:60]}", f"a candidate is skipped on an undeclared condition: {cn(s.cond)}", loc=fa.loc(s))
        if sh["continues"] != len([s for s in conts if cn(s.cond) in allowed]):
            run.finding("C19.a", "resolve:continue-count", "unexpected `continue` in the candidate loop", loc=fa.loc(loop))
        # fresh per-candidate state: declared directly in the loop body
        top = {d.name: (cn(d.init) if d.init is not None else None) for st in loop.body.stmts if isinstance(st, C.Decl) for d in st.decls}
        run.count(1, "C19.a.fresh")
        for nm in ("call", "map", "rank_adjustment"):
            if nm not in top:
                run.finding("C19.a", f"resolve:state:{nm}", f"`{nm}` is not re-created for every candidate (bindings or penalties could leak between candidates)",
                            loc=fa.loc(loop))
        if top.get("rank_adjustment") != "call.defaults_used":
            run.finding("C19.a", "resolve:rank-adjustment-init", f"rank_adjustment must start from call.defaults_used: {top.get('rank_adjustment')}", loc=fa.loc(loop))
        if top.get("map") not in ("(initial_resolution!=nullptr)?*initial_resolution:ResolutionMap{}", "(nullptr!=initial_resolution)?*initial_resolution:ResolutionMap{}"):
            run.finding("C19.a", "resolve:map-init", f"each candidate's bindings must start from initial_resolution only: {top.get('map')}", loc=fa.loc(loop))
        # survivor iff try_match
        pb = [c for c in R.calls(loop.body, "push_back") if cn(c.fn) == "survivors.push_back"]
        run.count(1, "C19.a.survivor")
        if len(pb) != 1:
            run.finding("C19.a", "resolve:survivor-push", f"expected exactly one survivors.push_back, found {len(pb)}", loc=fa.loc(loop))
        else:
            anc = [s for s in loop.body.walk() if isinstance(s, C.If) and R._contains(s.then, pb[0])]
            if not anc or not cn(anc[-1].cond).startswith("try_match(overload,") and not cn(anc[-1].cond).startswith("try_match(impl,"):
                run.finding("C19.a", "resolve:survivor-guard", "a candidate must become a survivor iff try_match succeeded", loc=fa.loc(pb[0]))
            el = pb[0].args[0]
            vals = [cn(x) for x in el.elems] if isinstance(el, C.Init) else []
            if len(vals) != 4 or vals[0] != "&impl" or vals[1] != "map" or vals[2] != "call" or vals[3] not in ("impl.rank+rank_adjustment", "rank_adjustment+impl.rank"):
                run.finding("C19.a", "resolve:survivor-record", f"survivor must record (&impl, map, call, impl.rank + rank_adjustment): {vals}", loc=fa.loc(pb[0]))
        tm = R.calls(loop.body, "try_match")
        a = [cn(x) for x in tm[0].args]
        if a[:3] != ["impl", "call.args", "call.kwargs"] or "map" not in a or "rank_adjustment" not in a:
            run.finding("C19.a", "resolve:try-match-args", f"try_match must receive this candidate's call, map and rank_adjustment: {a}", loc=fa.loc(tm[0]))

    with run.obligation("C19.b", "K2", "no survivor always throws; strict rank comparator; a tie of the two best always throws and that test "
                        "dominates every use of the winner"):
        fa = _resolve(run)
        cn = R.aliases_of(fa)
        fl = R.flow(run, fa)
        empty = fl.nodes_of(lambda n: n.kind == "cond" and n.label == "survivors.empty()")
        run.sites(len(empty), 1, "survivors.empty() test")
        w = fl.reach([s for s in fl.succ if s[0] in empty], targets=lambda n: n.id == fl.cfg.exit or (n.kind == "decl" and n.decl == "winner"),
                     first_edge=lambda lab: lab == "T")
        run.count(1, "C19.b.empty")
        if w is not None:
            run.finding("C19.b", "resolve:no-survivor-continues", "resolution continues although no overload matched: " + fl.path_text(w), loc=fl.cfg.describe(w[0][0]))
        thr = [s for s in fa.body.stmts if isinstance(s, C.If) and cn(s.cond) == "survivors.empty()"]
        kinds = [cn(x.e) for x in thr[0].then.walk() if isinstance(x, C.Throw)] if thr else []
        req = [s for s in (thr[0].then.walk() if thr else []) if isinstance(s, C.If) and cn(s.cond) == "any_requires_rejected"]
        if not req or not any("OperatorRequirementsError" in cn(x.e) for x in req[0].then.walk() if isinstance(x, C.Throw)) or \
                not any("OperatorResolutionError" in k for k in kinds):
            run.finding("C19.b", "resolve:error-kinds", f"no-match must raise OperatorRequirementsError iff any_requires_rejected else OperatorResolutionError: {kinds}", loc=DISP)
        ordering = [c for c in R.calls(fa) if R.callee_name(c) in ("stable_sort", "sort", "partial_sort", "nth_element", "min_element", "partial_sort_copy")
                    and c.args and cn(c.args[0]).startswith("survivors")]
        srt = [c for c in ordering if R.callee_name(c) in ("stable_sort", "sort")]
        run.count(1, "C19.b.sorted")
        if not srt:
            what = ", ".join(f"{R.callee_name(c)}({', '.join(cn(a) for a in c.args[:-1])})" for c in ordering) or "nothing"
            run.finding("C19.b", "resolve:survivors-not-fully-ordered", "the tie test compares survivors[0] with survivors[1], so BOTH must be minima: the "
                        f"survivors must be fully ordered by rank, found {what}; with three or more survivors a tie at the best rank is missed and the "
                        "winner depends on registration order", loc=fa.loc(ordering[0]) if ordering else DISP)
            return
        lam = srt[0].args[2] if len(srt[0].args) == 3 and isinstance(srt[0].args[2], C.Lambda) else None
        cmp_ = cn(R.find(lam.body, lambda n: isinstance(n, C.Return))[0].e) if lam is not None else None
        names = [p[1] for p in lam.params] if lam is not None else []
        run.count(1, "C19.b.comparator")
        ok = lam is not None and len(names) == 2 and cmp_ in (f"{names[0]}.rank<{names[1]}.rank", f"{names[1]}.rank>{names[0]}.rank")
        if not ok or [cn(a) for a in srt[0].args[:2]] != ["survivors.begin()", "survivors.end()"]:
            run.finding("C19.b", "resolve:comparator", f"survivors must be ordered by the strict rank order over the whole vector: {cmp_}", loc=fa.loc(srt[0]))
        second = fl.nodes_of(lambda n: n.kind == "cond" and n.label.replace(" ", "") in ("survivors[0].rank==survivors[1].rank", "survivors[1].rank==survivors[0].rank"))
        run.sites(len(second), 1, "rank-tie test")
        w = fl.reach([s for s in fl.succ if s[0] in second], targets=lambda n: n.id == fl.cfg.exit or (n.kind == "decl" and n.decl == "winner"),
                     first_edge=lambda lab: lab == "T")
        run.count(1, "C19.b.ambiguity")
        if w is not None:
            run.finding("C19.b", "resolve:tie-tolerated", "two equally ranked best candidates do not raise: the winner would depend on registration order: "
                        + fl.path_text(w), loc=fl.cfg.describe(w[0][0]))
        # every path to the winner passes the tie test, unless there is at most one survivor
        w = fl.reach([fl.start], avoid=lambda n: n.id in second, targets=lambda n: n.kind == "decl" and n.decl == "winner", after_source=False,
                     edge_skip=lambda node, lab: node.kind == "cond" and node.label.replace(" ", "") in ("survivors.size()>1", "1<survivors.size()", "survivors.size()>=2") and lab == "F")
        if w is not None:
            run.finding("C19.b", "resolve:tie-test-bypassed", "the winner can be selected without comparing the two best ranks although two or more "
                        "candidates survived", loc=fl.cfg.describe(w[-1][0]))
        win = lambda n: n.kind == "decl" and n.decl == "winner"
        R.require_nodes(run, fl, win, "winner declaration")
        wd = R.find(fa, lambda n: isinstance(n, C.Declarator) and n.name == "winner")
        if cn(wd[0].init) != "survivors[0]":
            run.finding("C19.b", "resolve:winner", f"the winner must be survivors[0] (the minimum rank): {cn(wd[0].init)}", loc=fa.loc(wd[0]))
        R.k2_precede(run, "C19.b", fl, lambda n: n.kind == "call" and n.name in ("stable_sort", "sort"), win, "survivors are sorted before the winner is taken")

    with run.obligation("C19.c", "K11", "resolution iterates only sequences (arguments, the overload vector, parameters, survivors, kwargs)"):
        fa = _resolve(run)
        cn = R.aliases_of(fa)
        txt = t.read(DISPH)
        m = re.search(r"std::unordered_map<\s*std::string\s*,\s*std::(vector|deque)<\s*OperatorImpl\s*>\s*>\s*overloads_", txt)
        run.count(1, "C19.c.container")
        if not m:
            run.finding("C19.c", "overloads_:type", "overloads_ must map a name to an ORDERED sequence of implementations", loc=DISPH)
        n = 0
        for l in R.loops(fa):
            if isinstance(l, C.RangeFor):
                n += 1
                run.count(1)
                rng = cn(l.range)
                if rng in ("overloads_", "*overloads_") or re.fullmatch(r"overloads_(\.begin\(\))?", rng):
                    run.finding("C19.c", "resolve:iterates-overload-map", "resolution iterates the overload hash map", loc=fa.loc(l))
        run.sites(n, 4, "range-for loops")

    with run.obligation("C19.d", "K1", "ResolutionMap::bind_ts / bind_scalar / bind_size: try_emplace; throw iff a different value is already bound "
                        "(ts/scalar also throw on null)"):
        for nm, var, nullable in (("bind_ts", "ts_vars", True), ("bind_scalar", "scalar_vars", True), ("bind_size", "size_vars", False)):
            fa = R.fn(run, RES, nm, cls="ResolutionMap")
            roles = [Role("ISNULL", "bool", r"meta==nullptr|nullptr==meta", required=nullable),
                     Role("INSERTED", "bool", r"inserted"), Role("SAME", "bool", r"it->second==(meta|size)|(meta|size)==it->second")]

            def spec(v, nullable=nullable):
                if nullable and v.b("ISNULL"):
                    return Expect(throws=True)
                if (not v.b("INSERTED")) and not v.b("SAME"):
                    return Expect(throws=True, calls=[("EMPLACE", (ANY, ANY))], stores_on_throw=True)
                return Expect(calls=[("EMPLACE", (ANY, ANY))])
            R.k1(run, "C19.d", fa, roles, spec, role_calls={"EMPLACE": var + r"\.try_emplace", "OVERWRITE": var + r"\.(insert_or_assign|operator\[\]|emplace|insert)"},
                 what=f"ResolutionMap::{nm}")
            cn = R.aliases_of(fa)
            idx = [n for n in fa.body.walk() if isinstance(n, C.Binary) and n.op == "=" and isinstance(n.l, C.Index)]
            if idx:
                run.finding("C19.d", f"{nm}:overwrite", f"{nm} overwrites an existing binding", loc=fa.loc(idx[0]))

    with run.obligation("C19.e", "K10", "match / rank / resolve handle every TypePattern::Kind and ScalarPattern::Kind; Concrete ranks 0 and Var "
                        "ranks LARGE (the extremes)"):
        kinds_ts = [f"TypePattern::Kind::{e}" for e in _enum(run, PATH, "TypePattern")]
        kinds_sc = [f"ScalarPattern::Kind::{e}" for e in _enum(run, PATH, "ScalarPattern")]
        fam = [("ts_pattern_match", kinds_ts), ("ts_pattern_rank", kinds_ts), ("ts_pattern_resolve", kinds_ts),
               ("scalar_pattern_match", kinds_sc), ("scalar_pattern_rank", kinds_sc), ("scalar_pattern_resolve", kinds_sc)]
        for nm, kinds in fam:
            fa = R.fn(run, PAT, nm)
            cn = R.aliases_of(fa)
            sws = [s for s in fa.body.walk() if isinstance(s, C.Switch) and cn(s.cond) == "pattern.kind"]
            run.count(1, f"C19.e.{nm}")
            if not sws:
                raise AnalysisError("anchor-vanished", f"{nm}: switch (pattern.kind) not found")
            cases = set()
            has_default = False
            for st in (sws[0].body.stmts if isinstance(sws[0].body, C.Block) else []):
                if isinstance(st, C.Case):
                    if st.value is None:
                        has_default = True
                    else:
                        cases.add(cn(st.value))
            missing = [k for k in kinds if k not in cases]
            if missing and not has_default:
                run.finding("C19.e", f"{nm}:missing-kinds", f"{nm} does not handle {missing}", loc=fa.loc(sws[0]))
            elif missing and has_default:
                run.finding("C19.e", f"{nm}:default-hides-kinds", f"{nm} routes {missing} through a default label", loc=fa.loc(sws[0]))
        for nm, pre, large in (("ts_pattern_rank", "TypePattern", "LARGE_RANK"), ("scalar_pattern_rank", "ScalarPattern", "SCALAR_VAR_RANK")):
            fa = R.fn(run, PAT, nm)
            cn = R.aliases_of(fa)
            sw = [s for s in fa.body.walk() if isinstance(s, C.Switch)][0]
            cur = None
            got = {}
            for st in sw.body.stmts:
                if isinstance(st, C.Case):
                    cur = cn(st.value) if st.value is not None else "default"
                elif isinstance(st, C.Return) and cur is not None and cur not in got:
                    got[cur] = cn(st.e)
            run.count(1, f"C19.e.{nm}.anchors")
            if got.get(f"{pre}::Kind::Concrete") != "0":
                run.finding("C19.e", f"{nm}:concrete", f"a Concrete pattern must rank 0 (most specific): {got.get(pre + '::Kind::Concrete')}", loc=PAT)
            v = got.get(f"{pre}::Kind::Var", "")
            if v not in (f"pattern.constraints.empty()?{large}:({large}/2)", f"pattern.constraints.empty()?{large}:{large}/2"):
                run.finding("C19.e", f"{nm}:var", f"a Var pattern must rank {large} (or half with constraints): {v}", loc=PAT)

    with run.obligation("C19.f", "K6", "the resolved call is built from the winning survivor only (impl, bindings, normalised arguments)"):
        fa = _resolve(run)
        cn = R.aliases_of(fa)
        rets = [r for r in R.find(fa, lambda n: isinstance(n, C.Return), into_lambdas=False) if isinstance(r.e, C.Init)]
        run.sites(len(rets), 1, "return ResolvedOperatorCall{...}")
        vals = [cn(x) for x in rets[-1].e.elems]
        run.count(1, "C19.f")
        if vals[:3] != ["survivors[0].impl", "survivors[0].map", "survivors[0].call.args"] and vals[:3] != ["winner.impl", "winner.map", "winner.call.args"]:
            run.finding("C19.f", "resolve:result", f"implementation, bindings and arguments must all come from the winner: {vals}", loc=fa.loc(rets[-1]))
        kw = [l for l in R.loops(fa) if isinstance(l, C.RangeFor) and "kwargs" in cn(l.range)]
        if not kw or cn(kw[-1].range) not in ("survivors[0].call.kwargs", "winner.call.kwargs"):
            run.finding("C19.f", "resolve:kwargs", "keyword arguments must be materialised from the winner's call", loc=DISP)

    with run.obligation("C19.g", "K6", "try_match: every pattern match of a candidate runs against that candidate's binding map (or a copy of it), so a "
                        "type variable bound by one parameter or by the requested output constrains every other parameter, the variadic tail included"):
        fa = R.fn(run, DISP, "try_match")
        cn = R.aliases_of(fa)
        MATCHERS = ("input_ts_pattern_match", "output_ts_pattern_match", "scalar_value_matches_ts_pattern", "scalar_pattern_match")
        scopes = {"map": "the candidate's map"}
        for dcl in R.find(fa, lambda n: isinstance(n, C.Decl) and "ResolutionMap" in n.type):
            for d in dcl.decls:
                init = cn(d.init) if d.init is not None else "<empty>"
                run.count(1, "C19.g.scope")
                if init == "map":
                    scopes[d.name] = "copy of map"
                else:
                    run.finding("C19.g", f"try_match:scope:{d.name}", f"the matching scope `{d.name}` starts from {init}, not from the candidate's bindings: "
                                "arguments matched in it are not tied to the variables already bound", loc=fa.loc(d))
        n = 0
        for c in R.calls(fa):
            if R.callee_name(c) not in MATCHERS:
                continue
            n += 1
            run.count(1, "C19.g.match")
            last = cn(c.args[-1])
            if last not in scopes:
                run.finding("C19.g", f"try_match:match-scope:{R.callee_name(c)}:{last}", f"{R.callee_name(c)} binds into `{last}`, which is not the candidate's "
                            "binding map or a copy of it", loc=fa.loc(c))
        run.sites(n, 7, "pattern matches in try_match")

    with run.obligation("C19.h", "K7", "matching is the inverse of resolution: for every pattern kind, each pattern field that ts_pattern_resolve uses to BUILD the "
                        "concrete type is also constrained by ts_pattern_match for that kind (otherwise a candidate matches arguments of a type it does not "
                        "denote)"):
        def case_fields(fa):
            cn_ = R.aliases_of(fa)
            out_ = {}
            for sw in R.find(fa, lambda n: isinstance(n, C.Switch)):
                labels = []
                fresh = True
                for st in (sw.body.stmts if isinstance(sw.body, C.Block) else []):
                    if isinstance(st, C.Case):
                        if not fresh:
                            labels = []
                        fresh = True
                        labels.append(cn_(st.value).split("::")[-1] if st.value is not None else "default")
                        for lb in labels:
                            out_.setdefault(lb, set())
                        continue
                    fresh = False
                    names = {m.name for m in st.walk() if isinstance(m, C.Member) and cn_(m.obj) == "pattern"}
                    # the whole pattern handed to a helper of this file: the helper's uses count (one level)
                    for c in R.calls(st):
                        if not any(cn_(a) == "pattern" for a in c.args):
                            continue
                        for hfd in run.tree.funcs(PAT, R.callee_name(c).split("::")[-1]):
                            if hfd.body is None or hfd.name in ("ts_pattern_match", "ts_pattern_resolve"):
                                continue
                            hfa = R.parse(run, hfd, strict=False)
                            pn = [nm for ty, nm in hfa.params if "TypePattern" in ty]
                            if pn:
                                names |= {m.name for m in hfa.body.walk() if isinstance(m, C.Member) and R.Canon()(m.obj) == pn[0]}
                    for lb in labels:
                        out_.setdefault(lb, set()).update(names)
            return out_
        fm = case_fields(R.fn(run, PAT, "ts_pattern_match"))
        fr = case_fields(R.fn(run, PAT, "ts_pattern_resolve"))
        kinds = [k for k in fr if k in fm and k != "default"]
        run.sites(len(kinds), 6, "pattern kinds handled by both")
        for k in sorted(kinds):
            run.count(1, "C19.h." + k)
            missing = sorted(f for f in fr[k] - fm[k] if f not in ("name",) or "name" not in fm[k])
            if missing:
                run.finding("C19.h", f"ts_pattern_match:{k}:ignores:{','.join(missing)}", f"ts_pattern_resolve builds a {k} type from pattern.{{{', '.join(sorted(fr[k]))}}} but "
                            f"ts_pattern_match does not constrain pattern.{{{', '.join(missing)}}} for that kind: arguments that differ only there match the pattern", loc=PAT)

    with run.obligation("C19.i", "K2+K6", "every parameter filled from a DEFAULT (a value default or a None default of a time-series input alike) makes the candidate "
                        "one step less specific: normalize_call counts each default it materialises and resolve seeds the rank adjustment with that count"):
        fds = [f for f in t.funcs(DISP, "normalize_call") if f.body is not None]
        run.sites(len(fds), 1, "normalize_call")
        fa = R.parse(run, fds[0])
        cn = R.aliases_of(fa)
        fl = R.flow(run, fa)
        blk = [s0 for s0 in fa.body.walk() if isinstance(s0, C.If) and cn(s0.cond).replace(" ", "").endswith("default_value.has_value()") and
               not cn(s0.cond).replace(" ", "").startswith("!")]
        run.count(1, "C19.i.count")
        fills = [n for n in fl.cfg.nodes if n.kind == "stmt" and any(l.startswith("filled[") for l, r in n.stores) and blk and R._contains(blk[0].then, n.ast)]
        inc = R.store_is(r"out\.defaults_used", r"\+\+|.*\+1")
        if not blk or not fills:
            raise AnalysisError("anchor-vanished", "normalize_call: default materialisation block")
        w = fl.reach([st for st in fl.succ if st[0] in {n.id for n in fills}], avoid=inc,
                     targets=lambda x: (x.kind == "stmt" and x.label.strip() == "continue") or x.kind == "loop-head" or x.id == fl.cfg.exit)
        if w is not None:
            run.finding("C19.i", "normalize_call:default-not-counted", "a parameter is filled from its default without counting it in defaults_used: the overload is "
                        "ranked as if the caller had supplied the argument and ties with / beats a sibling that needs no default: " + fl.path_text(w),
                        loc=fl.cfg.describe(w[0][0]))
        fa2 = _resolve(run)
        d = R.find(fa2, lambda n: isinstance(n, C.Declarator) and n.name == "rank_adjustment")
        if not d or R.aliases_of(fa2)(d[0].init).replace(" ", "") != "call.defaults_used":
            run.finding("C19.i", "resolve:rank-seed", "the rank adjustment of a candidate must start at the number of defaults its normalised call used", loc=DISP)

    with run.obligation("C19.j", "K6", "a type variable that occurs several times in a candidate is charged ONCE, at its cheapest occurrence, whatever the order in which the "
                        "occurrences are visited: RankAccumulator::add_var keeps the minimum rank per variable (so (item: V, coll: TSL[V]) and (coll: TSL[V], item: V) "
                        "rank the same)"):
        fa = R.fn(run, "include/hgraph/types/operator_dispatch.h", "RankAccumulator::add_var")
        cn = R.Canon()
        run.count(1, "C19.j")
        ok = False
        for n_ in fa.body.walk():
            if isinstance(n_, C.If):
                cond = re.sub(r"\s", "", cn(n_.cond))
                lowers = any(isinstance(x, C.Binary) and x.op == "=" and re.sub(r"\s", "", cn(x.l)) in ("it->second", "vars[key]") and cn(x.r) == "rank" for x in n_.then.walk())
                if lowers and ("rank<it->second" in cond or "it->second>rank" in cond or "rank<vars[key]" in cond) and "inserted" in cond:
                    ok = True
            if isinstance(n_, C.Binary) and n_.op == "=" and re.sub(r"\s", "", cn(n_.l)) in ("it->second", "vars[key]") and "std::min(" in cn(n_.r):
                ok = True
        if not ok:
            run.finding("C19.j", "RankAccumulator::add_var:not-minimum", "add_var no longer lowers the stored rank of a variable that is seen again at a cheaper position: the "
                        "candidate's rank depends on the ORDER of its parameters, so a looser overload can win or a spurious ambiguity is reported", loc=fa.loc(fa.body))
        fa = R.fn(run, "include/hgraph/types/operator_dispatch.h", "RankAccumulator::total")
        if not any(isinstance(l, C.RangeFor) and cn(l.range) == "vars" for l in R.loops(fa)):
            run.finding("C19.j", "RankAccumulator::total:vars-not-summed", "total() must add the rank of every variable once", loc=fa.loc(fa.body))

    with run.obligation("C19.k", "K11", "the inheritance distance that ranks an ancestor overload is computed on the DEREFERENCED schemas: matching sees through REF, so the "
                        "kind tests that short-circuit the rank to 0 must look at registry.dereference(...) of both sides, never at the raw pattern / argument schema "
                        "(a REF[TS[Derived]] argument would make every ancestor overload rank 0)"):
        fa = R.fn(run, "src/hgraph/types/operator_dispatch.cpp", "input_adaptation_rank")
        deref = {d.name for d in R.find(fa, lambda n: isinstance(n, C.Declarator) and n.init is not None) if any(R.callee_name(c) == "dereference" for c in
                 R.calls(d.init) + ([d.init] if isinstance(d.init, C.Call) else []))}
        run.count(1, "C19.k")
        if len(deref) < 2:
            run.finding("C19.k", "input_adaptation_rank:no-dereference", "input_adaptation_rank no longer dereferences both schemas", loc=fa.loc(fa.body))
        n_kind = 0
        for i_ in R.find(fa, lambda n: isinstance(n, C.If)):
            if not any(isinstance(x, C.Return) for x in i_.then.walk()):
                continue
            for m_ in i_.cond.walk():
                if isinstance(m_, C.Member) and m_.name == "kind" and m_.arrow:
                    n_kind += 1
                    root = m_.obj
                    if not (isinstance(root, C.Id) and root.name in deref):
                        run.finding("C19.k", "input_adaptation_rank:kind-test-on-raw-schema", f"the rank is short-circuited on `{cn(m_)}` - the raw, not dereferenced schema: "
                                    "a REF-wrapped argument loses its upcast penalty and an ancestor overload ties with (or beats) the most specific one", loc=fa.loc(i_))
        if n_kind < 2:
            run.finding("C19.k", "input_adaptation_rank:kind-tests-missing", "both dereferenced schemas must be checked for TS kind before the bundle distance is taken", loc=fa.loc(fa.body))

    with run.obligation("C19.l", "K7+K6", "(i) the INPUT matcher of time-series patterns keeps input semantics at every depth: every recursive match of a child pattern inside "
                        "input_ts_pattern_match (list element, dictionary value, each bundle field, referenced series) goes through input_ts_pattern_match itself - only the "
                        "final `same pattern, same series` fall-through may use the plain matcher - so REF / SIGNAL / inheritance transparency does not stop at a bundle field; "
                        "(ii) a repeated scalar variable accepts an argument that IS-A the bound bundle: bundle_is_a(candidate = the argument, base = the bound type), never the reverse"):
        TPAT = "src/hgraph/types/type_pattern.cpp"
        fa = R.fn(run, TPAT, "input_ts_pattern_match")
        cn = R.Canon()
        rec_in = [c for c in R.calls(fa, "input_ts_pattern_match")]
        rec_plain = [c for c in R.calls(fa, "ts_pattern_match")]
        run.sites(len(rec_in), 4, "recursive input matches")
        for c in rec_plain:
            run.count(1, "C19.l.rec")
            a0 = cn(c.args[0]).replace(" ", "") if c.args else ""
            if a0 != "pattern":                       # a CHILD pattern handed to the plain matcher
                run.finding("C19.l", f"input_ts_pattern_match:child-matched-without-input-semantics:{a0[:40]}", f"input_ts_pattern_match hands the child pattern `{a0}` to the plain "
                            "ts_pattern_match: below that point a REF parameter no longer accepts the referenced series, SIGNAL no longer accepts any series and a base-bound "
                            "variable no longer accepts a derived bundle, so the most specific candidate is rejected for an argument it should win", loc=fa.loc(c))
        fs = R.fn(run, TPAT, "input_scalar_pattern_match")
        isa = R.calls(fs, "bundle_is_a")
        run.sites(len(isa), 1, "bundle_is_a in the scalar input matcher")
        for c in isa:
            run.count(1, "C19.l.isa")
            args = [cn(a).replace(" ", "") for a in c.args]
            if args != ["concrete", "bound"]:
                run.finding("C19.l", "input_scalar_pattern_match:is-a-direction", f"bundle_is_a is called with {args}; the ARGUMENT (`concrete`) must be the candidate and the variable's "
                            "bound type the base: reversed, (TS[Dog], TS[Animal]) matches T=Dog although an Animal is not a Dog, and the legal (TS[Animal], TS[Dog]) is refused",
                            loc=fs.loc(c))

    with run.obligation("C19.m", "K7", "constraints belong to every OCCURRENCE of a variable: in each of the three variable matchers (scalar, size, time-series) the already-bound "
                        "branch re-checks this occurrence's constraints (`bound == concrete && <kind>_allowed_by_constraints(pattern, concrete)`) exactly as the unbound branch "
                        "does - a variable may have been bound by an unconstrained occurrence, by the requested output or by a pinned resolution, and a candidate that "
                        "survives with a type outside its constraint set ranks as MORE specific than its legitimate generic sibling"):
        fi_ = run.tree.file(PAT)
        txt_fn = {"scalar_allowed_by_constraints": 0, "size_allowed_by_constraints": 0, "ts_allowed_by_constraints": 0}
        n_b = 0
        for fd_ in fi_.funcs:
            if fd_.body is None or "_allowed_by_constraints" not in fi_.text(fd_.body[0], fd_.body[1]) or fd_.name.endswith("_allowed_by_constraints"):
                continue
            fa_ = R.parse(run, fd_, strict=False)
            cn_ = R.Canon()
            # bound branches: a return of `X == concrete...` comparisons inside an if that tests the variable is bound
            for r in R.find(fa_, lambda x: isinstance(x, C.Return)):
                if r.e is None:
                    continue
                rt = cn_(r.e).replace(" ", "")
                m_ = re.match(r"\(?(\*?bound==concrete\w*|concrete\w*==\*?bound)\)?", rt)
                if not m_:
                    continue
                # only where the UNBOUND sibling branch of the same block checks a constraint (bundle-schema variables carry none)
                holder = next((b for b in fa_.body.walk() if isinstance(b, C.Block) and any(isinstance(st, C.If) and any(x is r for x in st.then.walk()) for st in b.stmts)), None)
                blocks = [b for b in fa_.body.walk() if isinstance(b, C.Block) and any(isinstance(st, C.If) and any(x is r for x in st.then.walk()) for st in b.stmts)]
                holder = blocks[-1] if blocks else None
                if holder is None or not any(isinstance(st, C.If) and "_allowed_by_constraints(" in cn_(st.cond) for st in holder.stmts):
                    continue
                n_b += 1
                run.count(1, "C19.m")
                kinds = [k for k in txt_fn if k + "(" in rt]
                if not kinds:
                    run.finding("C19.m", f"{fd_.name}:bound-variable-skips-constraints", f"{fd_.qual}: an already-bound variable is accepted with `{rt[:80]}` - this occurrence's constraints "
                                "are not re-checked, so an overload whose constrained parameter comes after an unconstrained occurrence (or after the requested output) accepts a type "
                                "outside its constraint set", loc=fa_.loc(r))
        run.sites(n_b, 3, "already-bound variable branches")


def _enum(run, rel, struct):
    fi = run.tree.file(rel)
    for e in fi.enums:
        if e.name == "Kind" and e.qual.endswith(f"{struct}::Kind"):
            return e.enumerators
    raise AnalysisError("anchor-vanished", f"{struct}::Kind not found")


VARIANTS = [
    {"id": "m-seed-C19-9-bound-ts-variable-skips-constraints", "expect": "C19.m", "edits": [{"file": PAT, "find": "                    return bound == concrete && ts_allowed_by_constraints(pattern, concrete);", "replace": "                    return bound == concrete;"}]},
    {"id": "l-seed-C19-7-is-a-direction-reversed", "expect": "C19.l", "edits": [{"file": "src/hgraph/types/type_pattern.cpp", "find": "TypeRegistry::instance().bundle_is_a(concrete, bound))", "replace": "TypeRegistry::instance().bundle_is_a(bound, concrete))"}]},
    {"id": "l-seed-C19-8-bundle-field-matched-by-plain-matcher", "expect": "C19.l", "edits": [{"file": "src/hgraph/types/type_pattern.cpp", "find": "                    if (!input_ts_pattern_match(pattern.children[i], field.type, map)) { return false; }", "replace": "                    if (!ts_pattern_match(pattern.children[i], field.type, map)) { return false; }"}]},
    {"id": "j-first-occurrence-wins", "expect": "C19.j", "edits": [{"file": "include/hgraph/types/operator_dispatch.h", "find": "                auto [it, inserted] = vars.emplace(std::move(key), rank);\n                if (!inserted && rank < it->second) { it->second = rank; }", "replace": "                vars.try_emplace(std::move(key), rank);"}]},
    {"id": "k-kind-test-before-dereference", "expect": "C19.k", "edits": [{"file": "src/hgraph/types/operator_dispatch.cpp", "find": "            if (pattern.kind != TypePattern::Kind::Concrete || pattern.meta == nullptr || concrete == nullptr)\n            {\n                return 0;\n            }\n\n            TypeRegistry &registry", "replace": "            if (pattern.kind != TypePattern::Kind::Concrete || pattern.meta == nullptr || concrete == nullptr ||\n                pattern.meta->kind != TSTypeKind::TS || concrete->kind != TSTypeKind::TS)\n            {\n                return 0;\n            }\n\n            TypeRegistry &registry"}]},
    {"id": "i-none-default-not-counted", "expect": "C19.i", "edits": [{"file": DISP, "find": "                        synthesised.scalar_meta  = synthesised.scalar_value.schema();\n                    }\n                    filled[p] = std::move(synthesised);\n                    ++out.defaults_used;", "replace": "                        synthesised.scalar_meta  = synthesised.scalar_value.schema();\n                        ++out.defaults_used;\n                    }\n                    filled[p] = std::move(synthesised);"}]},
    {"id": "h-tsw-match-ignores-min-period", "expect": "C19.h", "edits": [{"file": PAT, "find": "                       (!concrete->is_duration_based() && pattern.fixed_size == concrete->period() &&\n                        pattern.min_size == concrete->min_period());", "replace": "                       (!concrete->is_duration_based() && pattern.fixed_size == concrete->period());"}]},
    {"id": "b-partial-sort-head-only", "expect": "C19.b", "edits": [{"file": DISP, "find": "        std::stable_sort(survivors.begin(), survivors.end(),\n                         [](const Survivor &a, const Survivor &b) { return a.rank < b.rank; });", "replace": "        std::partial_sort(survivors.begin(), survivors.begin() + 1, survivors.end(),\n                          [](const Survivor &a, const Survivor &b) { return a.rank < b.rank; });"}]},
    {"id": "g-tail-scope-empty", "expect": "C19.g", "edits": [{"file": DISP, "find": "                    ResolutionMap tail_scope = map;", "replace": "                    ResolutionMap tail_scope;"}]},
    {"id": "a-first-match-wins", "expect": "C19.a", "edits": [{"file": DISP, "find": "                survivors.push_back({&impl, std::move(map), std::move(call), impl.rank + rank_adjustment});\n", "replace": "                survivors.push_back({&impl, std::move(map), std::move(call), impl.rank + rank_adjustment});\n                if (impl.rank == 0) { break; }\n"}]},
    {"id": "a-shared-map", "expect": "C19.a", "edits": [{"file": DISP, "find": "        for (const OperatorImpl &impl : it->second)\n        {\n            NormalizedCall call;", "replace": "        ResolutionMap map = initial_resolution != nullptr ? *initial_resolution : ResolutionMap{};\n        for (const OperatorImpl &impl : it->second)\n        {\n            NormalizedCall call;"}, {"file": DISP, "find": "            ResolutionMap map = initial_resolution != nullptr\n                                    ? *initial_resolution\n                                    : ResolutionMap{};\n", "replace": ""}]},
    {"id": "a-rank-ignores-defaults", "expect": "C19.a", "edits": [{"file": DISP, "find": "survivors.push_back({&impl, std::move(map), std::move(call), impl.rank + rank_adjustment});", "replace": "survivors.push_back({&impl, std::move(map), std::move(call), impl.rank});"}]},
    {"id": "b-tie-picks-first", "expect": "C19.b", "edits": [{"file": DISP, "find": "if (survivors.size() > 1 && survivors[0].rank == survivors[1].rank)", "replace": "if (survivors.size() > 2 && survivors[0].rank == survivors[1].rank)"}]},
    {"id": "b-comparator-le", "expect": "C19.b", "edits": [{"file": DISP, "find": "return a.rank < b.rank; });", "replace": "return a.rank <= b.rank; });"}]},
    {"id": "b-winner-last", "expect": "C19", "edits": [{"file": DISP, "find": "        Survivor &winner = survivors[0];", "replace": "        Survivor &winner = survivors.back();"}]},
    {"id": "d-rebind-silently", "expect": "C19.d", "edits": [{"file": RES, "find": "            auto [it, inserted] = ts_vars.try_emplace(std::string{name}, meta);\n            if (!inserted && it->second != meta)\n            {\n                throw std::logic_error(fmt::format(\"type variable '{}' resolved inconsistently\", name));\n            }", "replace": "            auto [it, inserted] = ts_vars.try_emplace(std::string{name}, meta);\n            if (!inserted && it->second != meta)\n            {\n                it->second = meta;\n            }"}]},
    {"id": "e-rank-concrete-nonzero", "expect": "C19.e", "edits": [{"file": PAT, "find": "            case TypePattern::Kind::Concrete: return 0;", "replace": "            case TypePattern::Kind::Concrete: return LARGE_RANK;"}]},
    {"id": "f-args-from-other", "expect": "C19.f", "edits": [{"file": DISP, "find": "        return ResolvedOperatorCall{winner.impl, std::move(winner.map), std::move(winner.call.args),", "replace": "        return ResolvedOperatorCall{winner.impl, std::move(winner.map), std::move(survivors.back().call.args),"}]},
    {"id": "b-twin-comparator-swapped", "expect": None, "edits": [{"file": DISP, "find": "return a.rank < b.rank; });", "replace": "return b.rank > a.rank; });"}]},
]
