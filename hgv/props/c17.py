"""C17 - Real-time loop never runs early, never drops a wake-up, always stops."""
from __future__ import annotations

from .. import cparse as C
from ..index import AnalysisError
from ..k1 import ANY, Expect, Role
from ..report import Run
from .. import rules as R
from . import c18

ID = "C17"
EXEC = "src/hgraph/runtime/executor.cpp"
SCHED = "include/hgraph/runtime/node_scheduler.h"

TECHNIQUE = ("decision tables / term equivalence over all orderings of {wall, target, next-cycle, end} (K1/K6), lockset and "
             "wait-form rules (K8), ordering rules on the CFG (K2)")
EXPLANATION = (
    "Decides from executor.cpp / node_scheduler.h: the real-time cycle time is exactly min(target, max(wall, NOW+MIN_TD)) with "
    "target = min(next scheduled, END) (so it never passes a pending time, strictly advances unless capped by the target, and is "
    "never ahead of the wall clock except to honour the floor); the wait happens only while wall < target and no wake was requested, "
    "under the mutex, with the predicate form of wait_for and the wall clock re-read after every wait; stop is stored under the mutex "
    "before notify_all; an idle real-time run continues to END; the drain cut-off fires iff wall>=END and the cycle advanced by at "
    "most MIN_TD and the immediate-cycle counter reached its limit; already-due wall-clock alarms are re-timed, not dropped. "
    "Not decided: actual latency, OS scheduling, monotonicity of the host clock.")
ASSUMPTIONS = [
    "condition_variable::wait_for(lock, dur, pred) returns pred() and holds the lock on return",
    "times are multiples of MIN_TD, so x+MIN_TD is the immediate successor of x",
]
DECIDED = ["a cycle time term", "b wait loop", "c stop", "d end of run", "e due wall-clock alarms", "f push wake (shared with C16.d)",
           'g stop flag tested again after the blocking advance (= C02.d)', 'h push phase folds the future slot of every push-source node it did not run (= C02.c)',
           'i timer survives a visit in which the node did not run (= C18.e)', 'j conflating pending flag (= C16.b2)']
NOT_DECIDED = ["timing / latency", "OS scheduling", "host clock monotonicity"]


def advance_realtime_table(run: Run, rule: str) -> None:
    fa = R.fn(run, EXEC, "advance_realtime")
    roles = [Role("N", "t", r"next_scheduled_time"), Role("END", "t", r"state\.end_time"),
             Role("NOW", "t", r"state\.evaluation_time"), Role("NOW1", "t", None, succ_of="NOW"),
             Role("WALL0", "t", r"current_wall_time\(\)", epoch=("X", 0)),
             Role("WALL1", "t", r"current_wall_time\(\)", epoch=("X", 1), required=False),
             Role("PENDING", "bool", r"state\.push_update_pending"),
             Role("STOP", "bool", r"state\.stop_requested\.load\(.*\)"),
             Role("CONSEC", "n", r"state\.consecutive_immediate_cycles"), Role("LIMIT", "n", r"max_immediate_drain_cycles")]

    def spec(v):
        target = v.min("N", "END")
        wake = v.b("PENDING") or v.b("STOP")
        calls = []
        wall = "WALL0"
        if v.lt("WALL0", target) and not wake:
            calls.append(("WAIT", (ANY, ANY, ANY)))
            wall = "WALL1"
        nxt = v.min(target, v.max(wall, "NOW1"))
        if v.ge(wall, "END") and v.le(nxt, "NOW1") and v.ge("CONSEC", "LIMIT"):
            return Expect(calls=calls + [("SET", ("END",))], ret="END")
        return Expect(calls=calls + [("SET", (nxt,))], ret=nxt)
    R.k1(run, rule, fa, roles, spec, role_calls={"WAIT": r"state\.condition\.wait_for", "SET": r"state\.set_evaluation_time",
                                                   "BADWAIT": r"state\.condition\.(wait|wait_until)"},
         invalidate={r"state\.condition\.wait_for": "X"}, what="advance_realtime")



def check(run: Run) -> None:
    t = run.tree

    with run.obligation("C17.a", "K6", "advance_realtime: T = min(target, max(wall, NOW+MIN_TD)), target = min(next, END); waits only "
                        "while wall < target and no wake requested; drain cut-off returns END iff wall>=END and T<=NOW+MIN_TD and the "
                        "counter reached the limit"):
        advance_realtime_table(run, "C17.a")

    with run.obligation("C17.b", "K8+K2", "the wait loop runs under unique_lock(state.mutex), uses wait_for(lock, min(target-wall, "
                        "max_wait_slice), predicate) and re-reads the wall clock after every wait"):
        fa = R.fn(run, EXEC, "advance_realtime")
        cn = R.aliases_of(fa)
        waits = [c for c in R.calls(fa) if R.callee_name(c) in ("wait_for", "wait", "wait_until")]
        run.sites(len(waits), 1, "condition waits")
        for w in waits:
            run.count(1, "C17.b.form")
            if R.callee_name(w) != "wait_for" or len(w.args) != 3:
                run.finding("C17.b", "advance_realtime:wait-form", "must wait with wait_for(lock, duration, predicate)", loc=fa.loc(w))
                continue
            dur = cn(w.args[1])
            if dur not in ("std::min(target-wall_now,state.max_wait_slice)", "std::min(state.max_wait_slice,target-wall_now)"):
                run.finding("C17.b", "advance_realtime:wait-slice", f"wait duration must be min(target - wall, max_wait_slice), is {dur}", loc=fa.loc(w))
            pred = w.args[2]
            lam = pred if isinstance(pred, C.Lambda) else None
            if isinstance(pred, C.Id):
                ds = R.find(fa, lambda n: isinstance(n, C.Declarator) and n.name == pred.name and isinstance(n.init, C.Lambda))
                lam = ds[0].init if ds else None
            if lam is None:
                run.finding("C17.b", "advance_realtime:wait-predicate", "wait_for predicate is not a lambda", loc=fa.loc(w))
                continue
            rets = R.find(lam.body, lambda n: isinstance(n, C.Return))
            txt = cn(rets[0].e) if len(rets) == 1 else "?"
            if not (txt.startswith("state.push_update_pending||state.stop_requested.load(") or
                    (txt.startswith("state.stop_requested.load(") and txt.endswith("||state.push_update_pending"))):
                run.finding("C17.b", "advance_realtime:wake-predicate", f"wake predicate must be push_update_pending || stop_requested, is {txt}",
                            loc=fa.loc(lam))
        # lock held around the loop and the predicate
        acc = R.lock_accesses(fa, r"state\.mutex", ["push_update_pending", "condition"], via=r"state")
        run.sites(len(acc), 2, "guarded accesses")
        for node, fld, held in acc:
            run.count(1)
            if not held:
                run.finding("C17.b", f"advance_realtime:{fld}-unlocked", f"{fld} accessed without state.mutex", loc=fa.loc(node))
        lk = R.find(fa, lambda n: isinstance(n, C.Decl) and "unique_lock" in n.type)
        if not lk:
            run.finding("C17.b", "advance_realtime:lock-kind", "the wait requires a std::unique_lock", loc=EXEC)
        fl = R.flow(run, fa)
        wt = R.call_is(name="wait_for")
        reread = R.store_is(r"wall_now", r"current_wall_time\(\)")
        # every path from the wait back to the loop test or out of the loop passes the re-read
        w = fl.reach(fl.states_of(wt), avoid=reread, targets=lambda n: n.kind == "loop-head" or n.id in (fl.cfg.exit,),
                     first_edge=lambda lab: lab != "eh")
        run.count(1, "C17.b.reread")
        if w is not None:
            run.finding("C17.b", "advance_realtime:stale-wall", "wall clock not re-read after a wait: " + fl.path_text(w), loc=fl.cfg.describe(w[0][0]))
        R.require_nodes(run, fl, reread, "wall_now re-read")

    with run.obligation("C17.c", "K8+K1", "realtime_request_stop_impl stores stop_requested under the mutex then notify_all"):
        fa = R.fn(run, EXEC, "realtime_request_stop_impl")
        R.k1(run, "C17.c", fa, [], lambda v: Expect(calls=[("STORE", (True, ANY)), ("NOTIFY", ())]),
             role_calls={"STORE": r"realtime_storage\(memory\)\.stop_requested\.store", "NOTIFY": r"realtime_storage\(memory\)\.condition\.notify_all",
                         "NOTIFY1": r"realtime_storage\(memory\)\.condition\.notify_one"}, what="realtime_request_stop_impl")
        acc = R.lock_accesses(fa, r".*\.mutex", ["stop_requested", "condition"], via=r"state|realtime_storage\(memory\)")
        run.sites(len(acc), 2, "accesses")
        for node, fld, held in acc:
            run.count(1)
            if fld == "stop_requested" and not held:
                run.finding("C17.c", "request_stop:unlocked", "stop_requested must be stored under state.mutex (lost-wakeup otherwise)", loc=fa.loc(node))
            if fld == "condition" and held:
                run.finding("C17.c", "request_stop:notify-under-lock", "notify_all must follow the lock scope", loc=fa.loc(node))

    with run.obligation("C17.c2", "K2", "run_storage clears the stop flag only BEFORE the start phase: a stop requested while nodes start "
                        "(or at any later point) is never overwritten"):
        fa = R.fn(run, EXEC, "run_storage")
        fl = R.flow(run, fa)
        clear = R.call_is(name="store", recv=r"state\.stop_requested", arg=(0, r"false"))
        start = R.call_is(name="run_executor_phase", arg=(1, r"GraphExecutorPhase::Start"))
        R.require_nodes(run, fl, clear, "stop_requested.store(false)")
        R.k2_never_after(run, "C17.c2", fl, R.either(start, R.call_is(name="start", recv=r"graph|state\.graph\.view\(\)")), clear,
                         "stop flag cleared after the start phase began")
        stores = fl.nodes_of(lambda n: n.kind == "call" and n.name in ("store", "exchange") and "stop_requested" in n.recv)
        run.count(len(stores), "C17.c2")
        for nid in stores:
            if fl.cfg.nodes[nid].loops:
                run.finding("C17.c2", "run_storage:stop-flag-written-in-loop", "the run loop writes the stop flag", loc=fl.cfg.describe(nid))

    with run.obligation("C17.d", "K1", "idle_run_continues(RealTime) is true: an idle real-time run continues to END"):
        n = 0
        for fd in t.funcs(EXEC, "idle_run_continues"):
            ptxt = t.file(EXEC).text(fd.params[0], fd.params[1])
            if "RealTimeExecutorStorage" in ptxt:
                fa = R.parse(run, fd)
                rets = [R.Canon()(r.e) for r in R.find(fa, lambda x: isinstance(x, C.Return))]
                n += 1
                run.count(1, "C17.d")
                if rets != ["true"]:
                    run.finding("C17.d", "idle_run_continues(RealTime)", f"real-time idle rule must be `true`, is {rets}", loc=f"{EXEC}:{fd.line}")
        run.sites(n, 1, "idle_run_continues(RealTime)")

    with run.obligation("C17.e", "K1", "NodeScheduler::schedule re-times an already-due wall-clock alarm instead of dropping it (shared "
                        "table with C18.b)"):
        # re-run the C18.b table under this rule id so a break is attributed to C17 as well
        sub = Run("C17", run.tier, run.tree, quiet=True)
        sub.is_sub = True
        if not getattr(run, "is_sub", False):
            c18.check(sub)
        run.evaluations += sub.evaluations
        run.count(1, "C17.e")
        for f in sub.findings:
            if f.rule in ("C18.b", "C18.b2"):
                run.finding("C17.e", f.key, f.message, f.loc)
        for e in sub.errors:
            if e.startswith("C18.b"):
                raise AnalysisError("model-mismatch", e)

    with run.obligation("C17.f", "K2+K7", "real-time wake-ups booked inside wrapped / keyed sub-graphs are not dropped: try_except re-arms from its child after a captured "
                        "failure too, and the owners of several children pull the next wake-up of EVERY live child (shared with C15.c, C09.d)"):
        from . import c15, c09
        R.share(run, "C17.f", c15, ["C15.c"])
        R.share(run, "C17.f", c09, ["C09.d"])

    with run.obligation("C17.g", "K1", "the run loop ends a real-time run after the current cycle on a stop request: the flag is tested again AFTER the (blocking) advance, before "
                        "another cycle is evaluated - a stop that arrives while the loop is waiting is what wakes it and must not cost one more cycle; end of run at "
                        "END / MAX_DT; the immediate-cycle counter (shared with C02.d: the run_storage decision table)"):
        from . import c02
        R.share(run, "C17.g", c02, ["C02.d"])

    with run.obligation("C17.h", "K1", "a wake-up pending on a push-source node is not dropped by a push-triggered cycle: the push phase evaluates EVERY push-source node when a push "
                        "is pending, and folds the future slot of each one it did not run for into next_scheduled_time unconditionally - otherwise the executor sleeps to "
                        "end_time past the pending timer (shared with C02.c: the push-loop decision table of graph evaluate_impl)"):
        from . import c02 as c02_
        R.share(run, "C17.h", c02_, ["C02.c"])

    with run.obligation("C17.i", "K1", "a timer pending on a node survives a visit in which the node did not run (an input ticked while another required input is still invalid): the "
                        "input notification overwrote the node's single graph slot with NOW, and the post-evaluation scheduler service re-arms the slot from the remaining "
                        "events whether or not user code ran (shared with C18.e: the evaluate_impl decision table)"):
        from . import c18 as c18_
        R.share(run, "C17.i", c18_, ["C18.e"])

    with run.obligation("C17.j", "K1", "a conflating push source never forgets that it holds undelivered data: `pending` stays set once a send modified the accumulator, whatever later "
                        "no-op sends do, until the value is emitted (shared with C16.b2) - the wake-up of the real-time loop for that data depends on it"):
        from . import c16
        R.share(run, "C17.j", c16, ["C16.b2"])


VARIANTS = [
    {"id": "g-seed-C17-6-no-stop-test-after-advance", "expect": "C17.g", "edits": [{"file": EXEC, "find": "                if (state.stop_requested.load(std::memory_order_acquire) ||\n                    evaluation_time == MAX_DT ||\n                    evaluation_time >= state.end_time)\n                {\n                    break;\n                }", "replace": "                if (evaluation_time == MAX_DT || evaluation_time >= state.end_time) { break; }"}]},
    {"id": "a-no-floor", "expect": "C17.a", "edits": [{"file": EXEC, "find": "const DateTime wall_or_next_cycle = std::max(wall_now, next_cycle);", "replace": "const DateTime wall_or_next_cycle = wall_now;"}]},
    {"id": "a-no-ceiling", "expect": "C17.a", "edits": [{"file": EXEC, "find": "const DateTime next = std::min(target, wall_or_next_cycle);", "replace": "const DateTime next = wall_or_next_cycle;"}]},
    {"id": "a-target-ignores-end", "expect": "C17.a", "edits": [{"file": EXEC, "find": "const DateTime target     = std::min(next_scheduled_time, state.end_time);", "replace": "const DateTime target     = next_scheduled_time;"}]},
    {"id": "a-wait-while-le", "expect": "C17.a", "edits": [{"file": EXEC, "find": "while (wall_now < target && !wake_requested())", "replace": "while (wall_now <= target && !wake_requested())"}]},
    {"id": "a-ignore-wake", "expect": "C17.a", "edits": [{"file": EXEC, "find": "while (wall_now < target && !wake_requested())", "replace": "while (wall_now < target)"}]},
    {"id": "a-cutoff-or", "expect": "C17.a", "edits": [{"file": EXEC, "find": "if (wall_now >= state.end_time && next <= next_cycle &&", "replace": "if (wall_now >= state.end_time || next <= next_cycle &&"}]},
    {"id": "b-no-predicate", "expect": "C17", "edits": [{"file": EXEC, "find": "                        std::min(target - wall_now, state.max_wait_slice),\n                        wake_requested);", "replace": "                        std::min(target - wall_now, state.max_wait_slice)) == std::cv_status::no_timeout;"}]},
    {"id": "b-stale-wall", "expect": "C17", "edits": [{"file": EXEC, "find": "                    wall_now = current_wall_time();\n                    if (wake_requested_before_timeout) { break; }", "replace": "                    if (wake_requested_before_timeout) { break; }\n                    wall_now = current_wall_time();"}]},
    {"id": "b-pred-ignores-stop", "expect": "C17.b", "edits": [{"file": EXEC, "find": "                    return state.push_update_pending ||\n                           state.stop_requested.load(std::memory_order_acquire);", "replace": "                    return state.push_update_pending;"}]},
    {"id": "c-stop-unlocked", "expect": "C17.c", "edits": [{"file": EXEC, "find": "            auto &state = realtime_storage(memory);\n            {\n                std::lock_guard lock{state.mutex};\n                state.stop_requested.store(true, std::memory_order_release);\n            }\n            state.condition.notify_all();", "replace": "            auto &state = realtime_storage(memory);\n            state.stop_requested.store(true, std::memory_order_release);\n            state.condition.notify_all();"}]},
    {"id": "c-no-notify", "expect": "C17.c", "edits": [{"file": EXEC, "find": "                state.stop_requested.store(true, std::memory_order_release);\n            }\n            state.condition.notify_all();", "replace": "                state.stop_requested.store(true, std::memory_order_release);\n            }"}]},
    {"id": "c2-clear-after-start", "expect": "C17.c2", "edits": [{"file": EXEC, "find": "            state.stop_requested.store(false, std::memory_order_release);\n            state.set_evaluation_time(state.start_time);\n", "replace": "            state.set_evaluation_time(state.start_time);\n"}, {"file": EXEC, "find": "            ImmediateCycleRecorder recorder;\n", "replace": "            state.stop_requested.store(false, std::memory_order_release);\n            ImmediateCycleRecorder recorder;\n"}]},
    {"id": "d-idle-ends", "expect": "C17.d", "edits": [{"file": EXEC, "find": "        [[nodiscard]] bool idle_run_continues(const RealTimeExecutorStorage &, const GraphView &) noexcept\n        {\n            return true;", "replace": "        [[nodiscard]] bool idle_run_continues(const RealTimeExecutorStorage &, const GraphView &) noexcept\n        {\n            return false;"}]},
    {"id": "e-alarm-dropped", "expect": "C17.e", "edits": [{"file": SCHED, "find": "                    if (!on_wall_clock) { return; }\n                    when = std::max(now_ + MIN_TD, reference_now);", "replace": "                    return;"}]},
    {"id": "a-twin-max-swapped", "expect": None, "edits": [{"file": EXEC, "find": "const DateTime wall_or_next_cycle = std::max(wall_now, next_cycle);", "replace": "const DateTime wall_or_next_cycle = std::max(next_cycle, wall_now);"}]},
]
