"""C11 - reduce equals the fold over exactly the currently valid elements (partial)."""
from __future__ import annotations

import re

from .. import cparse as C
from ..index import AnalysisError
from ..k1 import ANY, Expect, Role
from ..report import Run
from .. import rules as R

ID = "C11"
PARTIAL = True
RED = "src/hgraph/runtime/reduce_node.cpp"
HO = "include/hgraph/lib/std/operators/impl/higher_order_impl.h"

TECHNIQUE = ("decision tables of the aggregate-resolution functions over the integer orderings they compare (K1), loop-shape rules of the "
             "deepest-first materialisation and the teardown order (K3), writer census of the evaluation list (K4), ordering rules of the "
             "generation hand-over (K2), argument-term check of the zero wiring (K6)")
EXPLANATION = (
    "PARTIAL: decides the structural contract around the incremental reduction tree, not that the tree equals the fold for every history. "
    "Decided: the zero contract (the result is Empty iff no element is live; with an explicit zero and exactly one live element the root "
    "combiner combines it with the zero; otherwise the tree's aggregate; an Empty aggregate is the zero output iff a zero is bound, else an "
    "unbound view; a leaf-region position resolves to a Leaf iff below the live count); combiners are evaluated deepest-first in a single "
    "pass (the evaluation list is written only by the descending full scan and by the highest-bit-first drain, and is walked without "
    "re-ordering); candidate selection cannot starve a due combiner (full scan iff a future combiner schedule is pending or nothing explains "
    "the wake-up) and a zero tick is a candidate only for a singleton; retired combiners are stopped before they join the previous "
    "generation, which is destroyed only in a LATER cycle, before reconciliation; teardown is root-first and previous-generation-first; the "
    "zero flag is exactly 'a zero was wired'. Not decided: incremental tree = fold for every add/remove history; order independence; the "
    "~700 lines of index arithmetic in reconcile_leaf_state / rebuild_structure.")
ASSUMPTIONS = ["std::countl_zero / bit tricks behave per the standard", "the combiner graph is associative as the operator requires"]
DECIDED = ["a zero contract", "b deepest-first single pass", "b2 candidate selection", "b' teardown order", "c generation hand-over",
           "d stop (shared C14.f)", "e zero flag is what was wired",
           'f2 leaf containers are reset and shrunk together', 'j full reconcile registers one leaf per current key (slot_live)',
           'k bitmap positions use bits_per_word', 'l structural_leaves holds dense indices']
NOT_DECIDED = ["tree equals fold for every history", "order independence", "reconcile_leaf_state / rebuild_structure arithmetic"]


def check(run: Run) -> None:
    t = run.tree

    with run.obligation("C11.a", "K1", "zero contract: root_aggregate / resolve_aggregate (leaf region) / aggregate_output(Empty)"):
        fa = R.fn(run, RED, "root_aggregate")
        roles = [Role("L0", "bool", r"0==storage\.dense_to_key\.size\(\)"), Role("L1", "bool", r"1==storage\.dense_to_key\.size\(\)"),
                 Role("HASZERO", "bool", r"context\.spec\.has_zero"), Role("NOCOMB", "bool", r"storage\.combiners\.empty\(\)")]

        def spec(v):
            if v.b("L0"):
                return Expect(ret=("tuple", "", (("sym", r"Aggregate::Kind::Empty"), 0)), calls=[])
            if v.b("HASZERO") and v.b("L1") and not v.b("NOCOMB"):
                return Expect(ret=("tuple", "", (("sym", r"Aggregate::Kind::Node"), 0)), calls=[])
            return Expect(calls=[("RESOLVE", (ANY, 0))])
        R.k1(run, "C11.a", fa, roles, spec, role_calls={"RESOLVE": r"resolve_aggregate"},
             feasible=lambda v: not (v.has("L0") and v.has("L1") and v.b("L0") and v.b("L1")), what="root_aggregate")
        fa = R.fn(run, RED, "resolve_aggregate")
        first_if = [s for s in fa.body.stmts if isinstance(s, C.If)]
        run.sites(len(first_if), 3, "resolve_aggregate branches")
        roles = [Role("POS", "n", r"position"), Role("INT", "n", r"internal_count\(storage\)"),
                 Role("LEAF", "n", r"position-(internals|internal_count\(storage\))"), Role("LIVE", "n", r"storage\.dense_to_key\.size\(\)")]

        def spec_leaf(v):
            if v.ge("POS", "INT"):
                if v.lt("LEAF", "LIVE"):
                    return Expect(ret=("tuple", "", (("sym", r"Aggregate::Kind::Leaf"), "LEAF")))
                return Expect(ret=("tuple", "", (("sym", r"Aggregate::Kind::Empty"), 0)))
            return Expect()
        R.k1(run, "C11.a", fa, roles, spec_leaf, unit=first_if[0], what="resolve_aggregate (leaf region)")
        cn = R.aliases_of(fa)
        conds = [(cn(s.cond).replace(" ", ""), [cn(r.e) for r in R.find(s.then, lambda n: isinstance(n, C.Return))]) for s in first_if[1:]]
        want = [("first_leaf>=live", ["{Aggregate::Kind::Empty,0}"]), ("live_in_subtree==1", ["{Aggregate::Kind::Leaf,first_leaf}"])]
        run.count(1, "C11.a.internal")
        if conds != want:
            run.finding("C11.a", "resolve_aggregate:internal", f"internal positions: Empty iff first_leaf >= live, Leaf(first_leaf) iff exactly one live leaf: {conds}", loc=RED)
        d = {x.name: cn(x.init) for x in R.find(fa, lambda n: isinstance(n, C.Declarator) and n.init is not None)}
        if d.get("live") != "storage.dense_to_key.size()" or d.get("live_in_subtree", "").replace(" ", "") != "std::min(span,live-first_leaf)":
            run.finding("C11.a", "resolve_aggregate:live", f"live counts must come from the dense key list: live={d.get('live')} live_in_subtree={d.get('live_in_subtree')}", loc=RED)
        fa = R.fn(run, RED, "aggregate_output")
        sw = [s for s in fa.body.walk() if isinstance(s, C.Switch)]
        run.sites(len(sw), 1, "aggregate kind switch")
        cur = None
        empty_ret = None
        kinds = set()
        for st in sw[0].body.stmts:
            if isinstance(st, C.Case):
                cur = cn(st.value) if st.value is not None else "default"
                kinds.add(cur)
            elif cur == "Aggregate::Kind::Empty":
                for r in R.find(st, lambda n: isinstance(n, C.Return)):
                    empty_ret = cn(r.e)
        run.count(1, "C11.a.empty")
        if kinds != {"Aggregate::Kind::Leaf", "Aggregate::Kind::Node", "Aggregate::Kind::Empty"}:
            run.finding("C11.a", "aggregate_output:kinds", f"aggregate_output must handle Leaf/Node/Empty: {sorted(kinds)}", loc=RED)
        if (empty_ret or "").replace(" ", "") != "storage.zero_source.bound()?storage.zero_source.view(evaluation_time):TSOutputView{}":
            run.finding("C11.a", "aggregate_output:empty", f"an Empty aggregate must be the zero output iff bound, else an unbound (invalid) view: {empty_ret}", loc=RED)

    with run.obligation("C11.b", "K3+K4", "combiners are evaluated deepest-first in one pass: evaluation_positions is written only by the descending full "
                        "scan and the highest-bit-first drain; reduce_evaluate walks it ascending without re-ordering"):
        writers = {}
        fi = t.file(RED)
        for fd in fi.funcs:
            body = fi.text(fd.body[0], fd.body[1])
            if "evaluation_positions" not in body and "positions . push_back" not in body:
                continue
            fa = R.parse(run, fd, strict=False)
            cn = R.aliases_of(fa)
            for c in R.calls(fa):
                if isinstance(c.fn, C.Member) and cn(c.fn.obj).endswith("evaluation_positions") and c.fn.name in (
                        "push_back", "insert", "emplace_back", "assign", "swap", "erase", "resize"):
                    writers.setdefault(fd.name, []).append(c.fn.name)
                if R.callee_name(c) in ("sort", "stable_sort", "reverse", "rotate", "shuffle") and any("evaluation_positions" in cn(a) for a in c.args):
                    run.finding("C11.b", f"{fd.name}:reorders", f"{fd.name} re-orders the evaluation list", loc=fa.loc(c))
        run.count(1, "C11.b.writers")
        if set(writers) - {"prepare_reduce_evaluation_positions"}:
            run.finding("C11.b", f"writers:{sorted(writers)}", f"evaluation_positions is filled outside prepare_reduce_evaluation_positions: {writers}", loc=RED)
        fa = R.fn(run, RED, "materialize_descending")
        cn = R.aliases_of(fa)
        outer = [l for l in fa.body.stmts if isinstance(l, C.For)]
        run.sites(len(outer), 1, "word loop")
        sh = R.loop_shape(outer[0], cn)
        ok = sh.get("init") == "candidates.word_count()" and cn(outer[0].cond).replace(" ", "") in ("word_index-->0", "0<word_index--") and outer[0].step is None
        inner = [l for l in outer[0].body.walk() if isinstance(l, C.While)]
        bit = R.find(fa, lambda n: isinstance(n, C.Declarator) and n.name == "bit")
        okb = bit and "63U-std::countl_zero(word)" in cn(bit[0].init).replace(" ", "")
        clr = [n for n in fa.body.walk() if isinstance(n, C.Binary) and n.op == "&=" and cn(n.l) == "word"]
        run.count(1, "C11.b.drain")
        if not (ok and len(inner) == 1 and cn(inner[0].cond).replace(" ", "") in ("word!=0", "0!=word") and okb and len(clr) == 1):
            run.finding("C11.b", "materialize_descending:shape", f"must drain words from the last to the first and bits from the highest down: loop={sh} bit={cn(bit[0].init) if bit else None}",
                        loc=RED)
        pb = [c for c in R.calls(fa, "push_back")]
        if len(pb) != 1 or cn(pb[0].args[0]) != "position":
            run.finding("C11.b", "materialize_descending:push", "each drained bit contributes its position once", loc=RED)
        fa = R.fn(run, RED, "prepare_reduce_evaluation_positions")
        cn = R.aliases_of(fa)
        fs = [s for s in fa.body.stmts if isinstance(s, C.If) and cn(s.cond) == "full_scan"]
        run.sites(len(fs), 1, "full-scan branch")
        fl_ = [l for l in fs[0].then.walk() if isinstance(l, C.For)]
        okf = fl_ and R.loop_shape(fl_[0], cn).get("init") == "storage.combiners.size()" and cn(fl_[0].cond).replace(" ", "") in ("position-->0",) and fl_[0].step is None
        if not okf:
            run.finding("C11.b", "prepare:full-scan-order", "the full scan must list combiner positions in DESCENDING order (deepest first)", loc=RED)
        if not (fs[0].els is not None and R.calls(fs[0].els, "materialize_descending")):
            run.finding("C11.b", "prepare:sparse-order", "the sparse path must materialise candidates with materialize_descending", loc=RED)
        fa = R.fn(run, RED, "reduce_evaluate")
        cn = R.aliases_of(fa)
        lp = [l for l in fa.body.stmts if isinstance(l, C.For)]
        sh = R.loop_shape(lp[0], cn) if lp else {}
        if not lp or sh.get("init") != "start_candidate" or sh.get("cond_op") != "<" or not sh.get("cond_r", "").endswith("evaluation_positions.size()") or sh.get("step") != "++" or sh["breaks"]:
            run.finding("C11.b", "reduce_evaluate:walk", f"the evaluation list must be walked once, in order: {sh}", loc=RED)

    with run.obligation("C11.b2", "K1", "candidate selection: full scan iff a future combiner schedule is pending or (not rebuilt and no input event); input "
                        "event = collection ticked or (has_zero and zero ticked); the zero is a candidate only for a singleton; the pending flag is "
                        "cleared here and set again while evaluating"):
        fa = R.fn(run, RED, "prepare_reduce_evaluation_positions")
        cn = R.aliases_of(fa)
        d = {x.name: cn(x.init).replace(" ", "") for x in R.find(fa, lambda n: isinstance(n, C.Declarator) and n.init is not None)}
        run.count(1, "C11.b2.decls")
        want = {"collection_event": "collection_input.modified()", "zero_event": "context.spec.has_zero&&root_input.indexed_child_at(1).modified()",
                "input_event": "collection_event||zero_event", "full_scan": "storage.has_future_combiner_schedule||(!rebuilt&&!input_event)",
                "collection_input": "root_input.indexed_child_at(0)"}
        for k, v in want.items():
            if d.get(k) != v:
                run.finding("C11.b2", f"prepare:{k}", f"{k} must be `{v}`, is `{d.get(k)}`", loc=RED)
        # value-modified leaves are candidates on EVERY non-full cycle in which the collection ticked (also on a rebuild cycle)
        def conj(e):
            if isinstance(e, C.Binary) and e.op == "&&":
                return conj(e.l) | conj(e.r)
            return {cn(e).replace(" ", "")}
        mod_if = [s for s in fa.body.stmts if isinstance(s, C.If) and R.calls(s.then, "append_modified_leaves")]
        run.count(1, "C11.b2.modified-leaves")
        if len(mod_if) != 1:
            run.finding("C11.b2", "prepare:modified-leaves-missing", "the paths of value-modified leaves must be added to the candidates", loc=RED)
        else:
            got = conj(mod_if[0].cond)
            want_c = {"!full_scan", "collection_event", "context.collection_ops->available(collection_input)"}
            if got != want_c:
                run.finding("C11.b2", "prepare:modified-leaves-guard", f"value-modified leaves must be candidates iff {sorted(want_c)}; the guard is {sorted(got)} "
                            "(an extra conjunct drops a key's update made in the same cycle as a structural change)", loc=fa.loc(mod_if[0]))
            if not R.calls(mod_if[0].then, "append_leaf_path"):
                run.finding("C11.b2", "prepare:modified-leaves-path", "every modified leaf contributes its leaf-to-root path", loc=fa.loc(mod_if[0]))
        st_if = [s for s in fa.body.stmts if isinstance(s, C.If) and "storage.structural_positions" in " ".join(cn(l.range) for l in R.loops(s.then) if isinstance(l, C.RangeFor))]
        if len(st_if) != 1 or conj(st_if[0].cond) != {"rebuilt", "!full_scan"}:
            run.finding("C11.b2", "prepare:structural-guard", "structural positions are candidates iff rebuilt && !full_scan", loc=RED)
        zc = [s for s in fa.body.stmts if isinstance(s, C.If) and "zero_event" in cn(s.cond)]
        c = cn(zc[0].cond).replace(" ", "") if zc else ""
        for need in ("!full_scan", "zero_event", "storage.dense_to_key.size()==1", "!storage.combiners.empty()", "storage.combiners[0]!=nullptr"):
            if need not in c:
                run.finding("C11.b2", f"prepare:zero-candidate:{need}", f"the zero may only become a candidate when {need}: {c}", loc=RED)
        if zc and [cn(x) for x in R.calls(zc[0].then)] != ["storage.evaluation_candidates.set(0)"]:
            run.finding("C11.b2", "prepare:zero-candidate-position", "a zero tick re-evaluates position 0 only", loc=RED)
        last = fa.body.stmts[-1]
        if not (isinstance(last, C.ExprStmt) and cn(last.e).replace(" ", "") == "storage.has_future_combiner_schedule=false"):
            run.finding("C11.b2", "prepare:flag-reset", "has_future_combiner_schedule must be cleared once the candidates are chosen", loc=RED)
        fa = R.fn(run, RED, "reduce_evaluate")
        cn = R.aliases_of(fa)
        setters = [n for n in fa.body.walk() if isinstance(n, C.Binary) and n.op == "=" and cn(n.l).endswith("has_future_combiner_schedule") and cn(n.r) == "true"]
        run.count(1, "C11.b2.setter")
        if len(setters) != 1:
            run.finding("C11.b2", "reduce_evaluate:flag-set", "a future combiner schedule must be remembered for the next cycle's candidate selection", loc=RED)

    with run.obligation("C11.bp", "K3", "teardown order: combiners destroyed root-first (ascending heap index); the previous generation before the current"):
        fa = R.fn(run, RED, "destroy_combiners", cls="ReduceNodeStorage")
        cn = R.aliases_of(fa)
        lp = [l for l in fa.body.walk() if isinstance(l, C.For)]
        sh = R.loop_shape(lp[0], cn) if lp else {}
        run.count(1, "C11.bp.order")
        if not lp or sh.get("init") != "0" or sh.get("cond_op") != "<" or sh.get("cond_r") != "combiners.size()" or sh.get("step") != "++":
            run.finding("C11.bp", "destroy_combiners:order", f"combiners must be destroyed in ascending heap order (root first): {sh}", loc=RED)
        fa = R.fn(run, RED, "~ReduceNodeStorage")
        seq = [R.callee_name(c) for c in R.calls(fa) if R.callee_name(c) in ("destroy_previous_generation", "destroy_combiners")]   # the two deciding calls, in order
        if seq != ["destroy_previous_generation", "destroy_combiners"]:
            run.finding("C11.bp", "~ReduceNodeStorage:order", f"the previous generation must be destroyed before the current one: {seq}", loc=RED)

    with run.obligation("C11.c", "K1+K2", "generation hand-over: the previous generation is destroyed iff non-empty and retired in an EARLIER cycle, before "
                        "reconciliation; retired combiners are stopped before they are queued; the retirement time is stamped iff non-empty"):
        fa = R.fn(run, RED, "destroy_previous_generation_before", cls="ReduceNodeStorage")
        roles = [Role("EMPTY", "bool", r"previous_generation\.empty\(\)"), Role("PGT", "t", r"previous_generation_time"), Role("NOW", "t", r"evaluation_time")]
        R.k1(run, "C11.c", fa, roles, lambda v: Expect(calls=[("DESTROY", ())]) if (not v.b("EMPTY") and v.lt("PGT", "NOW")) else Expect(calls=[]),
             role_calls={"DESTROY": r"destroy_previous_generation"}, what="destroy_previous_generation_before")
        fa = R.fn(run, RED, "reduce_evaluate")
        fl = R.flow(run, fa)
        R.k2_precede(run, "C11.c", fl, R.call_is(name="destroy_previous_generation_before", arg=(0, r"evaluation_time")), R.call_is(name="reduce_reconcile"),
                     "the previous generation is released before this cycle's reconciliation")
        fa = R.fn(run, RED, "rebuild_structure")
        cn = R.aliases_of(fa)
        fl = R.flow(run, fa)
        pushes = [c for c in R.calls(fa, "push_back") if cn(c.fn) == "storage.previous_generation.push_back"]
        run.sites(len(pushes), 2, "retirement sites")
        for p in pushes:
            blk = [b for b in fa.body.walk() if isinstance(b, C.Block) and any(R._contains(s, p) for s in b.stmts)]
            inner = blk[-1]
            idx = [i for i, s in enumerate(inner.stmts) if R._contains(s, p)][0]
            # the stop call precedes the push in the same loop body (possibly in an enclosing block of the push)
            loops_ = [l for l in R.loops(fa) if R._contains(l.body, p)]
            stops = R.calls(loops_[-1].body, "stop_combiner_noexcept") if loops_ else []
            run.count(1, "C11.c.stop-before-retire")
            if not stops or fa.line(stops[0]) > fa.line(p):
                run.finding("C11.c", "rebuild_structure:retire-unstopped", "a retired combiner must be stopped before it joins the previous generation", loc=fa.loc(p))
        st = [s for s in fa.body.walk() if isinstance(s, C.If) and cn(s.cond).replace(" ", "") == "!storage.previous_generation.empty()"
              and any(isinstance(n, C.Binary) and n.op == "=" and cn(n.l) == "storage.previous_generation_time" and cn(n.r) == "evaluation_time" for n in s.then.walk())]
        if len(st) != 1:
            run.finding("C11.c", "rebuild_structure:retirement-time", "previous_generation_time must be stamped with NOW iff something was retired", loc=RED)

    with run.obligation("C11.e", "K6", "the zero flag is exactly 'a zero was wired', and the zero port is appended as the second input iff it has a value"):
        fi = t.file(HO)
        fds = [f for f in fi.funcs if "spec . has_zero" in fi.text(f.body[0], f.body[1])]
        run.sites(len(fds), 1, "reduce wiring function")
        fa = R.parse(run, fds[0], strict=False)
        cn = R.aliases_of(fa)
        st = [n for n in fa.body.walk() if isinstance(n, C.Binary) and n.op == "=" and cn(n.l) == "spec.has_zero"]
        run.count(1, "C11.e")
        if len(st) != 1 or cn(st[0].r) != "zero.has_value()":
            run.finding("C11.e", "wire_reduce:has_zero", f"spec.has_zero must be zero.has_value(): {[cn(s.r) for s in st]}", loc=HO)
        zi = [s for s in fa.body.walk() if isinstance(s, C.If) and cn(s.cond) == "zero.has_value()"]
        ok = zi and any(R.callee_name(c) == "push_back" and cn(c.fn) == "inputs.push_back" and "zero" in cn(c.args[0]) for c in R.calls(zi[0].then))
        if not ok:
            run.finding("C11.e", "wire_reduce:zero-input", "the zero port must be wired as an input iff it has a value", loc=HO)

    with run.obligation("C11.f", "K13", "leaf registration: every site that appends a leaf records, for ONE source position S, the key derived from S, the "
                        "source slot S itself and the output handle found at S; the dense index is never stored as a source slot"):
        n = 0
        for fd in t.file(RED).funcs:
            if fd.body is None or "dense_to_source_slot . push_back" not in t.file(RED).text(fd.body[0], fd.body[1]):
                continue
            fa = R.parse(run, fd, strict=False)
            cn = R.aliases_of(fa)
            for blk in [b for b in fa.body.walk() if isinstance(b, C.Block)]:
                direct = [s for s in blk.stmts if isinstance(s, C.ExprStmt)]
                push = [c for s in direct for c in R.calls(s, "push_back") if cn(c.fn).endswith("dense_to_source_slot.push_back")]
                if not push:
                    continue
                n += 1
                run.count(1, "C11.f.site")
                S = cn(push[0].args[0])
                loc = fa.loc(push[0])
                emp = [c for s in direct for c in R.calls(s, "emplace") if cn(c.fn).endswith("key_to_leaf.emplace")]
                hnd = [c for s in direct for c in R.calls(s, "push_back") if cn(c.fn).endswith("dense_to_source_handle.push_back")]
                keyp = [c for s in direct for c in R.calls(s, "push_back") if cn(c.fn).endswith("dense_to_key.push_back")]
                if len(emp) != 1 or len(hnd) != 1 or len(keyp) != 1:
                    run.finding("C11.f", f"{fd.name}:incomplete-registration", "a leaf registration must update key_to_leaf, dense_to_key, dense_to_source_slot and "
                                "dense_to_source_handle together", loc=loc)
                    continue
                D = cn(emp[0].args[1])
                if S == D or S.endswith("dense_to_key.size()") or not re.fullmatch(r"[A-Za-z_]\w*", S):
                    run.finding("C11.f", f"{fd.name}:slot-is-dense-index", f"dense_to_source_slot receives `{S}`, the DENSE index of the new leaf, instead of the "
                                "source position it was read from: the leaf aliases another element's slot", loc=loc)
                    continue
                # S must be the position the key and the handle were derived from (resolve single-assignment locals of the enclosing scopes)
                locals_ = {d.name: cn(d.init) for d in R.find(fa, lambda x: isinstance(x, C.Declarator) and x.init is not None and x.bindings is None)}

                def expand(txt, depth=3):
                    for _ in range(depth):
                        txt2 = re.sub(r"\b([A-Za-z_]\w*)\b", lambda m: f"({locals_[m.group(1)]})" if m.group(1) in locals_ and m.group(1) != S else m.group(0), txt)
                        if txt2 == txt:
                            break
                        txt = txt2
                    return txt
                h = expand(cn(hnd[0].args[0]))
                k = expand(cn(keyp[0].args[0]))
                srx = re.compile(r"(?<![\w.>])" + re.escape(S) + r"(?!\w)")
                if not srx.search(h) or not srx.search(k):
                    run.finding("C11.f", f"{fd.name}:slot-mismatch", f"the stored source slot `{S}` is not the position the key (`{k[:80]}`) and the handle "
                                f"(`{h[:80]}`) were read from", loc=loc)
        run.sites(n, 5, "leaf registration sites")

    with run.obligation("C11.f2", "K9", "the four leaf-indexed containers a registration fills together (key_to_leaf, dense_to_key, dense_to_source_slot, dense_to_source_handle) "
                        "are also emptied together and shrunk together: clear_leaf_state clears all four (a key index that survives the reset keeps stale key -> leaf "
                        "entries, and the emplace of the following rebuild silently keeps them), remove_leaf_at erases the key and pops the three vectors"):
        QUARTET = ("key_to_leaf", "dense_to_key", "dense_to_source_slot", "dense_to_source_handle")
        fa = R.fn(run, RED, "clear_leaf_state")
        cn = R.aliases_of(fa)
        cleared = {cn(c.fn.obj).split(".")[-1] for c in R.calls(fa, "clear") if isinstance(c.fn, C.Member)}
        run.count(1, "C11.f2.clear")
        miss = [q for q in QUARTET if q not in cleared]
        if miss:
            run.finding("C11.f2", f"clear_leaf_state:not-cleared:{'+'.join(miss)}", f"clear_leaf_state leaves {miss} populated while the other leaf containers are emptied: after a "
                        "re-point of the collection the following rebuild registers the keys at new dense positions but the stale entries survive (emplace keeps an existing "
                        "key), so a later tick or removal of such a key addresses the wrong leaf", loc=fa.loc(fa.body))
        fa = R.fn(run, RED, "remove_leaf_at")
        cn = R.aliases_of(fa)
        popped = {cn(c.fn.obj).split(".")[-1] for c in R.calls(fa, "pop_back") if isinstance(c.fn, C.Member)}
        erased = {cn(c.fn.obj).split(".")[-1] for c in R.calls(fa, "erase") if isinstance(c.fn, C.Member)}
        run.count(1, "C11.f2.remove")
        miss = [q for q in QUARTET[1:] if q not in popped] + ([] if "key_to_leaf" in erased else ["key_to_leaf"])
        if miss:
            run.finding("C11.f2", f"remove_leaf_at:not-shrunk:{'+'.join(miss)}", f"remove_leaf_at does not shrink {miss} with the other leaf containers", loc=fa.loc(fa.body))

    with run.obligation("C11.g", "K7+K2", "swap-remove of a leaf: the paths that change are those of the removed leaf and of the LAST leaf (which moves into the "
                        "hole); record_removed_leaf_paths and remove_leaf_at agree on which leaf is last (size - 1), and the paths are recorded before the "
                        "leaf is removed (the size changes)"):
        lasts = {}
        for nm in ("record_removed_leaf_paths", "remove_leaf_at"):
            fa = R.fn(run, RED, nm)
            cn = R.aliases_of(fa)
            d = R.find(fa, lambda n: isinstance(n, C.Declarator) and n.name == "last")
            lasts[nm] = cn(d[0].init).replace(" ", "") if d else None
        run.count(1, "C11.g.last")
        if lasts["record_removed_leaf_paths"] != "storage.dense_to_key.size()-1" or lasts["remove_leaf_at"] != "storage.dense_to_key.size()-1":
            run.finding("C11.g", "swap-remove:last-leaf", f"the last leaf is index size-1 in both functions; found {lasts}: the moved leaf's old path would be "
                        "recorded one leaf off and a combiner above it keeps a dead binding", loc=RED)
        fa = R.fn(run, RED, "record_removed_leaf_paths")
        cn = R.aliases_of(fa)
        pushed = [cn(c.args[0]) for c in R.calls(fa, "push_back") if cn(c.fn).endswith("structural_leaves.push_back")]
        guard = [cn(s0.cond).replace(" ", "") for s0 in fa.body.walk() if isinstance(s0, C.If)]
        if pushed != ["leaf", "last"] or guard not in (["leaf!=last"], ["last!=leaf"]):
            run.finding("C11.g", "record_removed_leaf_paths:paths", f"must record the removed leaf and, if different, the last leaf: pushes {pushed} guard {guard}", loc=RED)
        n = 0
        for fd in t.file(RED).funcs:
            if fd.body is None or "remove_leaf_at" not in t.file(RED).text(fd.body[0], fd.body[1]) or fd.name == "remove_leaf_at":
                continue
            fa = R.parse(run, fd, strict=False)
            fl = R.flow(run, fa)
            rm = R.call_is(name="remove_leaf_at")
            if not fl.nodes_of(rm):
                continue
            n += 1
            R.k2_precede(run, "C11.g", fl, R.call_is(name="record_removed_leaf_paths"), rm, f"{fd.name}: the changing paths are recorded before the swap-remove")
        run.sites(n, 1, "swap-remove call sites")

    with run.obligation("C11.h", "K1", "the zero takes part in the published fold exactly while fewer than two elements are live (empty: the result IS the zero; one element: "
                        "it is folded with the zero): when the zero input is re-pointed to another producer in that state the tree is rebuilt so the root binds the new "
                        "zero - evaluated over the live-element count 0..3"):
        fa = R.fn(run, "src/hgraph/runtime/reduce_node.cpp", "reduce_reconcile")
        cn = R.Canon()
        decl = [d for d in R.find(fa, lambda n: isinstance(n, C.Declarator) and n.name == "zero_affects_structure" and n.init is not None)]
        if len(decl) != 1:
            raise AnalysisError("anchor-vanished", f"C11.h: zero_affects_structure declared {len(decl)} times in reduce_reconcile")

        def ev(e, n, flags):
            if isinstance(e, C.Binary) and e.op in ("&&", "||"):
                l, r = ev(e.l, n, flags), ev(e.r, n, flags)
                return (l and r) if e.op == "&&" else (l or r)
            if isinstance(e, C.Unary) and e.op == "!":
                return not ev(e.e, n, flags)
            if isinstance(e, C.Binary) and e.op in ("<", "<=", ">", ">=", "==", "!="):
                l, r = ev(e.l, n, flags), ev(e.r, n, flags)
                return {"<": l < r, "<=": l <= r, ">": l > r, ">=": l >= r, "==": l == r, "!=": l != r}[e.op]
            if isinstance(e, C.Lit):
                try:
                    return int(re.sub(r"[uUlLzZ]+$", "", e.text))
                except ValueError:
                    raise AnalysisError("model-mismatch", f"C11.h: literal {e.text}")
            if isinstance(e, C.Call) and isinstance(e.fn, C.Member) and cn(e.fn.obj).endswith("dense_to_key"):
                if e.fn.name == "size":
                    return n
                if e.fn.name == "empty":
                    return n == 0
            if isinstance(e, C.Id) and e.name in flags:
                return flags[e.name]
            if isinstance(e, C.Init) and len(e.elems) == 1:
                return ev(e.elems[0], n, flags)
            raise AnalysisError("model-mismatch", f"C11.h: cannot evaluate `{cn(e)}` in zero_affects_structure")
        bad = []
        for n in range(0, 4):
            for zr in (False, True):
                run.evaluations += 1
                got = ev(decl[0].init, n, {"zero_repointed": zr})
                if got != (zr and n <= 1):
                    bad.append((n, zr, got))
        run.count(1, "C11.h")
        if bad:
            run.finding("C11.h", "reduce_reconcile:zero-repoint-rebuild-condition", f"zero_affects_structure = {cn(decl[0].init)} differs from `zero re-pointed and fewer than two "
                        f"live elements` at (live elements, zero re-pointed) -> {[(n, zr) for n, zr, _ in bad]}: the root keeps its binding to the OLD zero source", loc=fa.loc(decl[0]))
        # the flag reaches both the rebuild decision and the full-structure request
        conds = [cn(i.cond) for i in R.find(fa, lambda n: isinstance(n, C.If)) if any(R.callee_name(c) == "rebuild_structure" for c in R.calls(i.then))]
        if not conds or "zero_affects_structure" not in conds[0]:
            run.finding("C11.h", "reduce_reconcile:zero-repoint-does-not-rebuild", f"the rebuild decision ({conds[:1]}) ignores zero_affects_structure", loc=fa.loc(decl[0]))

    with run.obligation("C11.i", "K3+K1", "the lifted fast path over a fixed TSL folds EVERY valid element whatever the order in which elements became valid: one ascending pass "
                        "over 0..size with no early exit, an invalid element is skipped (continue), the first valid one seeds the accumulator, every later valid one is "
                        "combined through the kernel"):
        fa = R.fn(run, HO, "wire_lifted_reduce_tsl")
        lam = [n_ for n_ in fa.body.walk() if isinstance(n_, C.Lambda) and R.calls(n_.body, "eval")]
        run.sites(len(lam), 1, "lifted reduce evaluate lambda")
        cn = R.aliases_of(fa)
        loops_ = [l for l in lam[0].body.walk() if isinstance(l, C.For)]
        run.sites(len(loops_), 1, "fold loop")
        lp = loops_[0]
        sh = R.loop_shape(lp, cn)
        run.count(1, "C11.i")
        if sh.get("init") != "0" or sh.get("cond_op") != "<" or not sh.get("cond_r", "").endswith("size()") or sh.get("step") != "++" or sh["breaks"] or sh["returns"] \
                or sh.get("body_writes_var"):
            run.finding("C11.i", "wire_lifted_reduce_tsl:fold-loop-shape", f"the fold does not visit every element of the list exactly once: {sh}", loc=fa.loc(lp))
        # skip-invalid guard: `if (!item.valid()) continue;` - the invalid arm must neither seed nor combine
        guards = [i for i in lp.body.stmts if isinstance(i, C.If) and re.sub(r"\s", "", R.Canon()(i.cond)) in ("!item.valid()", "!list[i].valid()")]
        if len(guards) != 1 or not any(isinstance(x, C.Continue) for x in guards[0].then.walk()) or R.calls(guards[0].then):
            run.finding("C11.i", "wire_lifted_reduce_tsl:invalid-element-not-skipped", "an invalid element must be skipped with `continue` (and nothing else) before the "
                        "accumulator is touched", loc=fa.loc(lp))
        elif lp.body.stmts.index(guards[0]) > min([k for k, st in enumerate(lp.body.stmts) if any(R.callee_name(c) in ("emplace", "eval") for c in R.calls(st))] or [99]):
            run.finding("C11.i", "wire_lifted_reduce_tsl:guard-after-use", "the validity guard must come before the element is used", loc=fa.loc(lp))

    with run.obligation("C11.j", "K4", "the full reconcile of a dictionary reduce registers one leaf per CURRENT key (slot_live): a key removed in the previous cycle, whose slot is "
                        "still occupied until the source's next mutation, is not an element of the fold"):
        R.membership_scans(run, "C11.j", [(RED, "reconcile_leaf_state", None, "leaves = current keys of the dictionary")])

    with run.obligation("C11.k", "K6", "combiner positions are reconstructed from the candidate bitmap with the bitmap's own word width (word_index * SlotBitmap::bits_per_word + bit)"):
        R.bitmap_positions(run, "C11.k", RED)

    with run.obligation("C11.l", "K6", "`structural_leaves` (the leaves whose paths the next rebuild must revisit) holds DENSE leaf indices: every value pushed into it is the dense index of "
                        "the leaf (dense_to_key.size() at registration, the key_to_leaf entry, the swap-remove's leaf / last) and never the source position (dictionary slot / list "
                        "index) the leaf was read from - the two coincide only for a collection that has never lost an element"):
        n_push = 0
        for fd_ in t.file(RED).funcs:
            if fd_.body is None or "structural_leaves . push_back" not in t.file(RED).text(fd_.body[0], fd_.body[1]):
                continue
            if any(o is not fd_ and o.body is not None and o.body[0] > fd_.body[0] and o.body[1] < fd_.body[1] and "structural_leaves . push_back" in t.file(RED).text(o.body[0], o.body[1]) for o in t.file(RED).funcs):
                continue
            fa_ = R.parse(run, fd_, strict=False)
            cn_ = R.aliases_of(fa_)
            # the source positions of this function: what it stores in dense_to_source_slot, and what it reads back from there
            src_pos = {cn_(c.args[0]).replace(" ", "") for c in R.calls(fa_, "push_back") if cn_(c.fn).endswith("dense_to_source_slot.push_back") and c.args}
            src_pos |= {d.name for d in R.find(fa_, lambda x: isinstance(x, C.Declarator) and x.init is not None and x.bindings is None) if "dense_to_source_slot[" in cn_(d.init)}
            for c in [c for c in R.calls(fa_, "push_back") if cn_(c.fn).endswith("structural_leaves.push_back")]:
                n_push += 1
                run.count(1, "C11.l")
                a = cn_(c.args[0]).replace(" ", "") if c.args else ""
                if a in src_pos:
                    run.finding("C11.l", f"{fd_.name}:structural-leaf-is-a-source-position:{a[:30]}", f"{fd_.qual} pushes `{a}` into structural_leaves, the SOURCE position it also stores "
                                "in dense_to_source_slot (a dictionary slot / list index), not the dense leaf index: after any earlier removal the rebuild revisits the wrong "
                                "path, the new element's combiner is not created and the fold omits it", loc=fa_.loc(c))
        run.sites(n_push, 6, "structural_leaves pushes")


VARIANTS = [
    {"id": "l-seed-C11-8-structural-leaf-is-source-slot", "expect": "C11.l", "edits": [{"file": RED, "find": "                storage.structural_leaves.push_back(storage.dense_to_key.size());", "replace": "                storage.structural_leaves.push_back(slot);"}]},
    {"id": "k-position-times-literal-8", "expect": "C11.k", "edits": [{"file": RED, "find": "word_index * SlotBitmap::bits_per_word + bit", "replace": "word_index * 8U + bit"}]},
    {"id": "f2-seed-C11-5-key-index-survives-reset", "expect": "C11.f2", "edits": [{"file": RED, "find": "            storage.dense_to_source_handle.clear();\n            storage.key_to_leaf.clear();", "replace": "            storage.dense_to_source_handle.clear();"}]},
    {"id": "f2-remove-keeps-handle", "expect": "C11.f2", "edits": [{"file": RED, "find": "            storage.dense_to_source_slot.pop_back();\n            storage.dense_to_source_handle.pop_back();", "replace": "            storage.dense_to_source_slot.pop_back();"}]},
    {"id": "j-leaf-scan-occupied", "expect": "C11.j", "edits": [{"file": RED, "find": "dict.slot_live(slot)", "replace": "dict.slot_occupied(slot)"}]},
    {"id": "i-lifted-fold-stops-at-first-invalid", "expect": "C11.i", "edits": [{"file": "include/hgraph/lib/std/operators/impl/higher_order_impl.h", "find": "                    auto item = list[i];\n                    if (!item.valid()) { continue; }\n                    if (!accumulator.has_value())", "replace": "                    auto item = list[i];\n                    if (!item.valid()) { break; }\n                    if (!accumulator.has_value())"}]},
    {"id": "h-zero-repoint-ignored-for-singleton", "expect": "C11.h", "edits": [{"file": "src/hgraph/runtime/reduce_node.cpp", "find": "                zero_repointed && storage.dense_to_key.size() <= 1;", "replace": "                zero_repointed && storage.dense_to_key.empty();"}]},
    {"id": "h-twin-size-less-than-two", "expect": None, "edits": [{"file": "src/hgraph/runtime/reduce_node.cpp", "find": "                zero_repointed && storage.dense_to_key.size() <= 1;", "replace": "                zero_repointed && storage.dense_to_key.size() < 2;"}]},
    {"id": "g-last-leaf-one-too-far", "expect": "C11.g", "edits": [{"file": RED, "find": "            const std::size_t last = storage.dense_to_key.size() - 1;\n            storage.structural_leaves.push_back(leaf);", "replace": "            const std::size_t last = storage.dense_to_key.size();\n            storage.structural_leaves.push_back(leaf);"}]},
    {"id": "f-slot-gets-dense-index", "expect": "C11.f", "edits": [{"file": RED, "find": "                    storage.dense_to_key.push_back(std::move(key));\n                    storage.dense_to_source_slot.push_back(index);\n                    storage.dense_to_source_handle.push_back(\n                        effective_output_handle(child.bound_output()));", "replace": "                    storage.dense_to_key.push_back(std::move(key));\n                    storage.dense_to_source_slot.push_back(dense_leaf);\n                    storage.dense_to_source_handle.push_back(\n                        effective_output_handle(child.bound_output()));"}]},
    {"id": "b2-modified-leaves-skipped-on-rebuild", "expect": "C11.b2", "edits": [{"file": RED, "find": "            if (!full_scan && collection_event &&\n                context.collection_ops->available(collection_input))", "replace": "            if (!full_scan && !rebuilt && collection_event &&\n                context.collection_ops->available(collection_input))"}]},
    {"id": "a-zero-with-two", "expect": "C11.a", "edits": [{"file": RED, "find": "if (context.spec.has_zero && live == 1 && !storage.combiners.empty())", "replace": "if (context.spec.has_zero && live >= 1 && !storage.combiners.empty())"}]},
    {"id": "a-empty-returns-leaf", "expect": "C11.a", "edits": [{"file": RED, "find": "                if (leaf < storage.dense_to_key.size()) { return {Aggregate::Kind::Leaf, leaf}; }", "replace": "                if (leaf <= storage.dense_to_key.size()) { return {Aggregate::Kind::Leaf, leaf}; }"}]},
    {"id": "a-empty-without-zero-valid", "expect": "C11.a", "edits": [{"file": RED, "find": "                    return storage.zero_source.bound()\n                               ? storage.zero_source.view(evaluation_time)\n                               : TSOutputView{};", "replace": "                    return storage.zero_source.view(evaluation_time);"}]},
    {"id": "b-ascending-full-scan", "expect": "C11.b", "edits": [{"file": RED, "find": "                for (std::size_t position = storage.combiners.size(); position-- > 0;)\n                {\n                    if (storage.combiners[position] != nullptr)\n                    {\n                        storage.evaluation_positions.push_back(position);", "replace": "                for (std::size_t position = 0; position < storage.combiners.size(); ++position)\n                {\n                    if (storage.combiners[position] != nullptr)\n                    {\n                        storage.evaluation_positions.push_back(position);"}]},
    {"id": "b-lowest-bit-first", "expect": "C11.b", "edits": [{"file": RED, "find": "const auto bit = static_cast<std::size_t>(63U - std::countl_zero(word));", "replace": "const auto bit = static_cast<std::size_t>(std::countr_zero(word));"}]},
    {"id": "b2-no-full-scan-on-future", "expect": "C11.b2", "edits": [{"file": RED, "find": "bool full_scan = storage.has_future_combiner_schedule || (!rebuilt && !input_event);", "replace": "bool full_scan = !rebuilt && !input_event;"}]},
    {"id": "b2-zero-perturbs-many", "expect": "C11.b2", "edits": [{"file": RED, "find": "if (!full_scan && zero_event && storage.dense_to_key.size() == 1 &&", "replace": "if (!full_scan && zero_event && storage.dense_to_key.size() >= 1 &&"}]},
    {"id": "bp-children-first", "expect": "C11.bp", "edits": [{"file": RED, "find": "                for (std::size_t position = 0; position < combiners.size(); ++position)\n                {\n                    if (combiners[position] == nullptr) { continue; }", "replace": "                for (std::size_t position = combiners.size(); position-- > 0;)\n                {\n                    if (combiners[position] == nullptr) { continue; }"}]},
    {"id": "c-destroy-same-cycle", "expect": "C11.c", "edits": [{"file": RED, "find": "if (!previous_generation.empty() && previous_generation_time < evaluation_time)", "replace": "if (!previous_generation.empty() && previous_generation_time <= evaluation_time)"}]},
    {"id": "c-retire-unstopped", "expect": "C11.c", "edits": [{"file": RED, "find": "                stop_combiner_noexcept(it->second);\n                storage.previous_generation.push_back({storage.current_bank, it->first});", "replace": "                storage.previous_generation.push_back({storage.current_bank, it->first});"}]},
    {"id": "e-has-zero-always", "expect": "C11.e", "edits": [{"file": HO, "find": "            spec.has_zero = zero.has_value();", "replace": "            spec.has_zero = true;"}]},
    {"id": "a-twin-operands", "expect": None, "edits": [{"file": RED, "find": "if (context.spec.has_zero && live == 1 && !storage.combiners.empty())", "replace": "if (!storage.combiners.empty() && context.spec.has_zero && 1 == live)"}]},
]
