"""C16 - Push queue: accepted values are delivered once, in order, within capacity."""
from __future__ import annotations

import re

from .. import cparse as C
from ..index import AnalysisError
from ..k1 import ANY, Expect, Role
from ..report import Run
from .. import rules as R

ID = "C16"
PUSH = "src/hgraph/runtime/push_source_node.cpp"
EXEC = "src/hgraph/runtime/executor.cpp"
GRAPH = "src/hgraph/runtime/graph.cpp"

TECHNIQUE = ("lockset analysis (K8) of the three cross-thread classes, admission/hand-off decision tables (K1), container "
             "mutator census (K4/K7), ops-table homogeneity (K5) and ordering rules on the CFG (K2)")
EXPLANATION = (
    "Decides the structural clauses of the cross-thread push boundary: every access to the queue / conflating / sender-control / "
    "real-time executor shared fields happens with the owning mutex held (or inside the enter()/leave() quiescence bracket); the "
    "admission table (refuse iff not accepting or full; full iff max_pending!=0 and size>=max_pending; blocking send re-tests "
    "accepting after a predicate wait and refuses to wait on the evaluation thread); FIFO (producers only push_back, the "
    "consumer only front/pop_front or swaps the whole deque); wake_required is read before the push; the wake flag is set "
    "under the mutex before notify_all; one value per cycle per source with re-arm iff more pending; one drain per cycle "
    "before normal nodes; mode-homogeneous executor tables; stop order begin_close -> policy stop -> quiescence -> detach. "
    "Not decided: liveness beyond the re-arm edge; merged content of the conflating policy.")
ASSUMPTIONS = [
    "std::mutex / condition_variable / deque behave per the standard",
    "burst_* bindings of QueuePolicyStorage are evaluation-thread confined (written in start/stop, read in make_burst)",
    "a lambda inherits the lock state of its definition point (wait predicates and local helpers)",
]
DECIDED = ["a lock discipline", "b admission table", "b2 conflating pending flag", "h strictly increasing delivery cycles", "c FIFO", "d wake protocol", "d2 executor tables", "e one drain per cycle",
           "f stop protocol", "g one value per cycle",
           'k stop protocol of push_source_stop (policy stop before on_stop and before the wait for quiescence)']
NOT_DECIDED = ["liveness", "conflating policy content"]


def _methods(run: Run, rel: str, cls: str):
    return [f for f in run.tree.file(rel).funcs if f.cls == cls]


def check(run: Run) -> None:
    t = run.tree

    # ---- a. lock discipline -----------------------------------------------------------------------
    with run.obligation("C16.a", "K8", "shared fields of QueuePolicyStorage / ConflatingPolicyStorage / PushSourceSenderControl / "
                        "RealTimeExecutorStorage are accessed only with their mutex held"):
        classes = [
            ("QueuePolicyStorage", r"mutex", ["values", "accepting", "max_pending", "consumer_thread"],
             {"full": "private helper: called only with the lock held (checked)", "validate": "static, touches no field"}),
            ("ConflatingPolicyStorage", r"mutex", ["accumulator", "pending", "accepting", "next_mutation_time", "output_schema"], {}),
            ("PushSourceSenderControl", r"mutex_", ["closing_", "active_calls_"], {}),
        ]
        total = 0
        for cls, mrx, fields, helpers in classes:
            ms = _methods(run, PUSH, cls)
            run.sites(len(ms), 4, f"{cls} methods")
            # helper call sites must be in held regions
            for fd in ms:
                if fd.name == cls or fd.name == "~" + cls:
                    continue  # constructors run before the object is shared
                fa = R.parse(run, fd)
                entry_held = fd.name in helpers and fd.name == "full"
                acc = R.lock_accesses(fa, mrx, fields, entry_held=entry_held)
                total += len(acc)
                for node, fld, held in acc:
                    run.count(1)
                    if not held:
                        run.finding("C16.a", f"{cls}::{fd.name}:{fld}", f"{cls}::{fd.name} accesses `{fld}` without holding {mrx}",
                                    loc=fa.loc(node))
                if "full" in helpers and fd.name != "full":
                    acc2 = R.lock_accesses(fa, mrx, ["full"], via=None)
                    # 'full' as a callee id
                    for c in R.calls(fa, "full"):
                        pass
            if "full" in helpers:
                for fd in ms:
                    if fd.name == "full":
                        continue
                    fa = R.parse(run, fd)
                    # treat the helper name as a pseudo-field: call sites must be held
                    acc = R.lock_accesses(fa, mrx, ["full"])
                    for node, fld, held in acc:
                        run.count(1)
                        if not held:
                            run.finding("C16.a", f"{cls}::{fd.name}:full()", f"{cls}::{fd.name} calls full() without holding the mutex",
                                        loc=fa.loc(node))
            run.count(1, f"C16.a.{cls}")
        run.sites(total, 40, "guarded field accesses")
        # sender control: storage_/push_engine_/type_realization_ written only in detach (+ctor), read under lock or in the bracket
        ms = _methods(run, PUSH, "PushSourceSenderControl")
        prot = ["storage_", "push_engine_", "type_realization_"]
        for fd in ms:
            if fd.name in ("PushSourceSenderControl",):
                continue
            fa = R.parse(run, fd)
            cn = R.aliases_of(fa)
            acc = R.lock_accesses(fa, r"mutex_", prot)
            writes = [n for n in R.find(fa, lambda x: isinstance(x, C.Binary) and x.op in C._ASSIGN and isinstance(x.l, C.Id) and x.l.name in prot)]
            if writes and fd.name != "detach":
                run.finding("C16.a", f"PushSourceSenderControl::{fd.name}:write", f"{fd.name} writes {cn(writes[0].l)}; only detach() may",
                            loc=fa.loc(writes[0]))
            unheld = [(n, f) for n, f, h in acc if not h]
            if unheld:
                # must be inside the enter()/leave() bracket
                # `if (!enter()) return ...;` directly followed by the scope-exit guard that calls leave(); every unguarded read
                # lies AFTER the pair (statements before the pair -- a trace line, a local -- are fine as long as they do not read)
                st = fa.body.stmts
                gi = next((i for i, s0 in enumerate(st) if isinstance(s0, C.If) and cn(s0.cond) == "!enter()" and
                           any(isinstance(x, C.Return) for x in s0.then.walk())), None)
                ok = (gi is not None and gi + 1 < len(st) and isinstance(st[gi + 1], C.Decl) and
                      isinstance(st[gi + 1].decls[0].init, C.Call) and R.callee_name(st[gi + 1].decls[0].init) == "make_scope_exit" and
                      any(R.callee_name(c) == "leave" for c in R.calls(st[gi + 1].decls[0].init)))
                first_two = set()
                for s0 in st[:(gi + 2) if gi is not None else 0]:
                    first_two.update(id(x) for x in s0.walk())
                ok = ok and all(id(n) not in first_two for n, _ in unheld)
                run.count(len(unheld), "C16.a.bracket")
                if not ok:
                    n0, f0 = unheld[0]
                    run.finding("C16.a", f"PushSourceSenderControl::{fd.name}:{f0}", f"{fd.name} reads `{f0}` neither under mutex_ nor inside "
                                f"an enter()/leave() bracket", loc=fa.loc(n0))
        # real-time executor: push_update_pending only under state.mutex
        n = 0
        for fd in t.file(EXEC).funcs:
            txt = t.file(EXEC).text(fd.head[0], fd.body[1])
            if "RealTimeExecutorStorage" not in txt and "realtime_storage" not in txt:
                continue
            if "push_update_pending" not in txt:
                continue
            fa = R.parse(run, fd)
            acc = R.lock_accesses(fa, r".*\.mutex|mutex", ["push_update_pending"], via=r"state|storage|realtime_storage\(memory\)")
            for node, fld, held in acc:
                n += 1
                run.count(1)
                if not held:
                    run.finding("C16.a", f"{fd.qual}:push_update_pending", f"{fd.qual} accesses the real-time push_update_pending flag "
                                f"without holding state.mutex", loc=fa.loc(node))
        run.sites(n, 5, "real-time pending flag accesses")

    # ---- b. admission table ----------------------------------------------------------------------------
    with run.obligation("C16.b", "K1", "QueuePolicyStorage: try_send refuses iff !accepting or full; full iff max_pending!=0 and "
                        "size>=max_pending; send_blocking waits with the predicate form, re-tests accepting, throws iff full on the "
                        "consumer thread; wake_required is the emptiness read BEFORE the push"):
        full_fa = R.fn(run, PUSH, "full", cls="QueuePolicyStorage")
        roles_full = [Role("SIZE", "n", r"values\.size\(\)"), Role("MAXP", "n", r"max_pending"), Role("ZERO", "n", r"0", sentinel="min")]
        R.k1(run, "C16.b", full_fa, roles_full, lambda v: Expect(ret=(v.ne("MAXP", "ZERO") and v.ge("SIZE", "MAXP"))), what="QueuePolicyStorage::full")
        base = [Role("ACC0", "bool", r"accepting", epoch=("W", 0)), Role("ACC1", "bool", r"accepting", epoch=("W", 1), required=False),
                Role("FULL", "bool", r"full\(\)"),
                Role("EMPTY0", "bool", r"values\.empty\(\)", epoch=("P", 0)),
                Role("EMPTY1", "bool", r"values\.empty\(\)", epoch=("P", 1), required=False)]
        fa = R.fn(run, PUSH, "try_send", cls="QueuePolicyStorage")

        def spec_try(v):
            if not v.b("ACC0"):
                return Expect(calls=[], ret=("tuple", "", ()))
            if v.b("throws:VALIDATE"):
                return Expect(throws=True)
            if v.b("FULL"):
                return Expect(calls=[("VALIDATE", ANYARGS)], ret=("tuple", "", ()))
            return Expect(calls=[("VALIDATE", ANYARGS), ("PUSH", (ANY,))], ret=("tuple", "", (True, v.b("EMPTY0"))))
        R.k1(run, "C16.b", fa, base, spec_try, role_calls={"VALIDATE": r"validate", "PUSH": r"values\.push_back",
                                                          "OTHERMUT": r"values\.(push_front|emplace_front|insert|emplace|pop_front|pop_back|clear)"},
             may_throw_calls=("VALIDATE",), invalidate={r"values\.push_back": "P"}, what="QueuePolicyStorage::try_send")
        fa = R.fn(run, PUSH, "send_blocking", cls="QueuePolicyStorage")

        def spec_block(v):
            if not v.b("ACC0"):
                return Expect(calls=[], ret=("tuple", "", ()))
            if v.b("throws:VALIDATE"):
                return Expect(throws=True)
            if v.b("FULL") and v.b("ONCONSUMER"):
                return Expect(throws=True)
            calls = [("VALIDATE", ANYARGS), ("WAIT", (ANY, ANY))]
            if not v.b("ACC1"):
                return Expect(calls=calls, ret=("tuple", "", ()))
            return Expect(calls=calls + [("PUSH", (ANY,))], ret=("tuple", "", (True, v.b("EMPTY0"))))
        R.k1(run, "C16.b", fa, base + [Role("ONCONSUMER", "bool", r"consumer_thread==std::this_thread::get_id\(\)")], spec_block,
             role_calls={"VALIDATE": r"validate", "PUSH": r"values\.push_back", "WAIT": r"capacity_available\.wait",
                         "OTHERMUT": r"values\.(push_front|emplace_front|insert|emplace|pop_front|pop_back|clear)"},
             may_throw_calls=("VALIDATE",), invalidate={r"values\.push_back": "P", r"capacity_available\.wait": "W"},
             what="QueuePolicyStorage::send_blocking")
        cn = R.aliases_of(fa)
        waits = R.calls(fa, "wait")
        run.sites(len(waits), 1, "condition wait")
        for w in waits:
            pred = w.args[1] if len(w.args) == 2 and isinstance(w.args[1], C.Lambda) else None
            run.count(1, "C16.b.predicate")
            if pred is None:
                run.finding("C16.b", "send_blocking:wait-form", "capacity wait must use the predicate overload", loc=fa.loc(w))
                continue
            rets = R.find(pred.body, lambda n: isinstance(n, C.Return))
            txt = cn(rets[0].e) if len(rets) == 1 else "?"
            if txt not in ("!accepting||!full()", "!full()||!accepting"):
                run.finding("C16.b", "send_blocking:wait-predicate", f"wait predicate must be !accepting || !full(), is {txt}", loc=fa.loc(pred))
        fa = R.fn(run, PUSH, "try_pop", cls="QueuePolicyStorage")
        roles = [Role("EMPTY0", "bool", r"values\.empty\(\)", epoch=("Q", 0)), Role("EMPTY1", "bool", r"values\.empty\(\)", epoch=("Q", 1), required=False),
                 Role("MORE", "bool", r"result\.more_pending", lvalue=True)]

        def spec_pop(v):
            if v.b("EMPTY0"):
                return Expect(calls=[], ret="std::nullopt", dont_care=("MORE",))
            return Expect(calls=[("FRONT", ()), ("POP", ()), ("UNLOCK", ()), ("NOTIFY", ())], stores={"MORE": not v.b("EMPTY1")})
        R.k1(run, "C16.b", fa, roles, spec_pop, role_calls={"FRONT": r"values\.front", "POP": r"values\.pop_front", "UNLOCK": r"(lock|mutex)\.unlock",
                                                          "NOTIFY": r"capacity_available\.notify_(one|all)",
                                                          "OTHERMUT": r"values\.(back|pop_back|push_back|push_front|clear)"},
             invalidate={r"values\.pop_front": "Q"}, what="QueuePolicyStorage::try_pop")

    # ---- b2. conflating policy keeps an accepted value pending until it is drained --------------------
    with run.obligation("C16.b2", "K1", "ConflatingPolicyStorage::try_send: the pending flag is monotone until drained (pending' = pending or "
                        "the accumulator changed), wake_required iff it became pending; take_accumulated hands over iff pending and clears it"):
        fa = R.fn(run, PUSH, "try_send", cls="ConflatingPolicyStorage")
        roles = [Role("ACC", "bool", r"accepting"), Role("PENDING", "bool", r"pending", lvalue=True),
                 Role("MOD", "bool", r"accumulator\.view\(.*\)\.modified\(\)")]

        def spec_c(v):
            if not v.b("ACC"):
                return Expect(calls=[], ret=("tuple", "", ()))
            was = v.b("PENDING")
            now = was or v.b("MOD")
            return Expect(calls=[("APPLY", (ANY, ANY))], stores={"PENDING": now}, ret=("tuple", "", (True, now and not was)), throws="may")
        R.k1(run, "C16.b2", fa, roles, spec_c, role_calls={"APPLY": r"apply_delta"}, what="ConflatingPolicyStorage::try_send")
        fa = R.fn(run, PUSH, "take_accumulated", cls="ConflatingPolicyStorage")
        roles = [Role("PENDING", "bool", r"pending", lvalue=True)]
        R.k1(run, "C16.b2", fa, roles, lambda v: Expect(stores={"PENDING": False}) if v.b("PENDING") else Expect(ret="std::nullopt"),
             what="ConflatingPolicyStorage::take_accumulated")
        fa = R.fn(run, PUSH, "send_blocking", cls="ConflatingPolicyStorage")
        cs = R.calls(fa, "try_send")
        if len(cs) != 1:
            run.finding("C16.b2", "Conflating::send_blocking", "conflating send_blocking must forward to try_send", loc=PUSH)

    # ---- h. deliveries get strictly increasing cycle times (shared with C17.a) -------------------------
    with run.obligation("C16.h", "K6", "real-time cycle time is min(target, max(wall, NOW+MIN_TD)): consecutive push deliveries get strictly "
                        "increasing evaluation times (shared table with C17.a)"):
        from . import c17
        c17.advance_realtime_table(run, "C16.h")

    # ---- c. FIFO ---------------------------------------------------------------------------------------
    with run.obligation("C16.c", "K4", "the only mutators of QueuePolicyStorage::values are push_back (senders), front/pop_front "
                        "(try_pop), swap (take_all) and clear (start/stop)"):
        allowed = {"push_back": {"try_send", "send_blocking"}, "front": {"try_pop"}, "pop_front": {"try_pop"}, "swap": {"take_all"},
                   "clear": {"start", "stop"}, "empty": None, "size": None}
        seen = {}
        for fd in _methods(run, PUSH, "QueuePolicyStorage"):
            fa = R.parse(run, fd)
            shadow = {nm for _, nm in fa.params}
            if "values" in shadow:
                continue
            for c in R.calls(fa):
                if isinstance(c.fn, C.Member) and isinstance(c.fn.obj, C.Id) and c.fn.obj.name == "values":
                    m = c.fn.name
                    seen.setdefault(m, set()).add(fd.name)
                    run.count(1)
                    if m not in allowed:
                        run.finding("C16.c", f"values.{m}@{fd.name}", f"QueuePolicyStorage::{fd.name} uses values.{m}(): not a FIFO operation",
                                    loc=fa.loc(c))
                    elif allowed[m] is not None and fd.name not in allowed[m]:
                        run.finding("C16.c", f"values.{m}@{fd.name}", f"values.{m}() is only allowed in {sorted(allowed[m])}, found in {fd.name}",
                                    loc=fa.loc(c))
                # swap with values as argument
                for a in c.args:
                    if isinstance(a, C.Id) and a.name == "values" and R.callee_name(c) == "swap":
                        seen.setdefault("swap", set()).add(fd.name)
                        if fd.name != "take_all":
                            run.finding("C16.c", f"swap@{fd.name}", f"values swapped outside take_all ({fd.name})", loc=fa.loc(c))
        run.count(1, "C16.c")
        for m in ("push_back", "pop_front", "front"):
            if m not in seen:
                raise AnalysisError("anchor-vanished", f"values.{m} not found in QueuePolicyStorage")
        run.sample({"rule": "C16.c", "mutators": {k: sorted(v) for k, v in seen.items()}})

    # ---- d. wake protocol --------------------------------------------------------------------------------
    with run.obligation("C16.d", "K8+K1", "realtime mark: flag set under the mutex (skipped iff stop requested) then notify_all after "
                        "the lock scope; push_source_eval re-arms iff more pending; sender marks pending iff accepted and wake_required"):
        fa = R.fn(run, EXEC, "realtime_mark_push_update_pending_impl")
        roles = [Role("STOP", "bool", r"realtime_storage\(memory\)\.stop_requested\.load\(.*\)"),
                 Role("PENDING", "bool", r"realtime_storage\(memory\)\.push_update_pending", lvalue=True)]

        def spec_mark(v):
            if v.b("STOP"):
                return Expect(calls=[])
            return Expect(stores={"PENDING": True}, calls=[("NOTIFY", ())])
        R.k1(run, "C16.d", fa, roles, spec_mark, role_calls={"NOTIFY": r"realtime_storage\(memory\)\.condition\.notify_all"},
             what="realtime_mark_push_update_pending_impl")
        # notify happens outside the lock block, the store inside
        acc = R.lock_accesses(fa, r"state\.mutex|realtime_storage\(memory\)\.mutex", ["condition", "push_update_pending", "stop_requested"],
                              via=r"state|realtime_storage\(memory\)")
        for node, fld, held in acc:
            run.count(1)
            if fld == "condition" and held:
                run.finding("C16.d", "realtime_mark:notify-under-lock", "notify_all must follow the lock scope", loc=fa.loc(node))
            if fld in ("push_update_pending", "stop_requested") and not held:
                run.finding("C16.d", f"realtime_mark:{fld}-unlocked", f"{fld} must be accessed under the mutex", loc=fa.loc(node))
        fa = R.fn(run, EXEC, "simulation_mark_push_update_pending_impl")
        R.k1(run, "C16.d", fa, [Role("STOP", "bool", r"simulation_storage\(memory\)\.stop_requested\.load\(.*\)")],
             lambda v: Expect(calls=[]) if v.b("STOP") else Expect(calls=[("SET", (True, ANY))]),
             role_calls={"SET": r"simulation_storage\(memory\)\.push_update_pending\.store"}, what="simulation_mark_push_update_pending_impl")
        fa = R.fn(run, PUSH, "push_source_eval")
        R.k1(run, "C16.d", fa, [Role("MORE", "bool", r"detail::PushSourcePolicyAccess::emit_next\(.*\)")],
             lambda v: Expect(calls=[("MARK", ())]) if v.b("MORE") else Expect(calls=[]),
             role_calls={"MARK": r".*\.mark_push_update_pending"}, what="push_source_eval re-arm")
        for m in ("try_send", "send_blocking"):
            fa = R.fn(run, PUSH, m, cls="PushSourceSenderControl")
            roles = [Role("ENTER", "bool", r"enter\(\)"), Role("STOPREQ", "bool", r"push_engine_\.stop_requested\(\)"),
                     Role("ACCEPTED", "bool", r"policy_\.ops_->(try_send|send_blocking)_impl\(.*\)\.accepted"),
                     Role("WAKE", "bool", r"policy_\.ops_->(try_send|send_blocking)_impl\(.*\)\.wake_required")]

            def spec_send(v):
                if not v.b("ENTER"):
                    return Expect(ret=False, calls=[])
                if v.b("STOPREQ"):
                    return Expect(ret=False, calls=[("LEAVE", ())])
                calls = [("SEND", (ANY, ANY, ANY))]
                if v.b("ACCEPTED") and v.b("WAKE"):
                    calls.append(("MARK", ()))
                calls.append(("LEAVE", ()))
                return Expect(ret=v.b("ACCEPTED"), calls=calls)
            R.k1(run, "C16.d", fa, roles, spec_send,
                 role_calls={"SEND": r"policy_\.ops_->(try_send|send_blocking)_impl", "MARK": r"push_engine_\.mark_push_update_pending",
                             "LEAVE": r"leave"}, what=f"PushSourceSenderControl::{m}")

    # ---- d2. executor tables ------------------------------------------------------------------------------
    with run.obligation("C16.d2", "K5", "simulation_executor_ops names only simulation_* functions, realtime_executor_ops only "
                        "realtime_* functions, both fill the same slots, and make_type pairs the mode with its table"):
        sim = R.designated_slots(R.fn(run, EXEC, "simulation_executor_ops").body)
        rtm = R.designated_slots(R.fn(run, EXEC, "realtime_executor_ops").body)
        run.sites(len(sim), 15, "simulation slots")
        run.sites(len(rtm), 15, "realtime slots")
        for nm, tab, pre, other in (("simulation_executor_ops", sim, "&simulation_", "realtime"), ("realtime_executor_ops", rtm, "&realtime_", "simulation")):
            for slot, val in tab.items():
                run.count(1)
                if slot == "context":
                    continue
                if not val.startswith(pre):
                    run.finding("C16.d2", f"{nm}.{slot}", f"{nm}.{slot} = {val}: not a {pre[1:]}* function", loc=EXEC)
                elif not val[len(pre):].startswith(slot[:-5] if slot.endswith("_impl") else slot) and val[len(pre):] != slot:
                    # slot x_impl <- &mode_x_impl (clock_ptr naming differs: evaluation_clock_ptr_impl <- *_clock_ptr_impl)
                    base = slot
                    if val[len(pre):] not in (base, base.replace("evaluation_clock_ptr", "clock_ptr")):
                        run.finding("C16.d2", f"{nm}.{slot}", f"{nm}.{slot} = {val}: function does not implement this slot", loc=EXEC)
        if set(sim) != set(rtm):
            run.finding("C16.d2", "slot-sets", f"executor tables fill different slots: {sorted(set(sim) ^ set(rtm))}", loc=EXEC)
        run.count(1, "C16.d2")
        txt = t.read(EXEC)
        if not re.search(r"Simulation[^;]*\?\s*simulation_executor_ops\([^)]*\)\s*:\s*realtime_executor_ops", txt) and \
                not re.search(r"case\s+GraphExecutorMode::Simulation[^}]*simulation_executor_ops", txt, re.S):
            # fall back: find the function that calls both and check the condition
            users = [f for f in t.file(EXEC).funcs if "simulation_executor_ops" in t.file(EXEC).text(f.body[0], f.body[1])
                     and "realtime_executor_ops" in t.file(EXEC).text(f.body[0], f.body[1])]
            ok = False
            for fd in users:
                fa = R.parse(run, fd)
                cn = R.aliases_of(fa)
                for n in fa.body.walk():
                    if isinstance(n, C.Ternary):
                        c, a, b = cn(n.c), cn(n.a), cn(n.b)
                        if "Simulation" in c and "==" in c and a.startswith("simulation_executor_ops") and b.startswith("realtime_executor_ops"):
                            ok = True
                        if "RealTime" in c and "==" in c and a.startswith("realtime_executor_ops") and b.startswith("simulation_executor_ops"):
                            ok = True
                    if isinstance(n, C.If):
                        c = cn(n.cond)
                        if "Simulation" in c and "==" in c and "simulation_executor_ops" in cn_text(n.then, cn) and \
                                (n.els is None or "realtime_executor_ops" in cn_text(n.els, cn)):
                            ok = True
                        if "RealTime" in c and "==" in c and "realtime_executor_ops" in cn_text(n.then, cn) and \
                                (n.els is None or "simulation_executor_ops" in cn_text(n.els, cn)):
                            ok = True
            if not ok:
                run.finding("C16.d2", "mode-pairing", "cannot confirm that GraphExecutorMode::Simulation selects simulation_executor_ops "
                            "and RealTime selects realtime_executor_ops", loc=EXEC)

    # ---- e. one drain per cycle, before normal nodes ---------------------------------------------------------
    with run.obligation("C16.e", "K2", "graph evaluate_impl resets the push-pending flag once, in the fresh-cycle block, before the push "
                        "loop, which precedes the main loop; first_normal_node = push_source_nodes_end"):
        fa = R.fn(run, GRAPH, "evaluate_impl")
        fl = R.flow(run, fa)
        reset = R.call_is(name="reset_push_update_pending")
        ns = R.require_nodes(run, fl, reset, "reset_push_update_pending")
        run.count(1, "C16.e")
        if len(ns) != 1 or fl.cfg.nodes[ns[0]].loops:
            run.finding("C16.e", "evaluate_impl:reset-count", "reset_push_update_pending must be called exactly once per cycle, outside any loop",
                        loc=fl.cfg.describe(ns[0]))
        ev = R.call_is(name="evaluate", recv=r"node_view")
        evs = R.require_nodes(run, fl, ev, "node evaluate calls", 3)
        w = fl.reach(fl.states_of(ev), targets=reset)
        if w is not None:
            run.finding("C16.e", "evaluate_impl:reset-after-eval", "push-pending reset reachable after a node evaluation: " + fl.path_text(w),
                        loc=fl.cfg.describe(w[-1][0]))
        # push loop evaluations precede main loop evaluations: no path from a main-loop evaluate to a push-loop evaluate
        cn = R.aliases_of(fa)
        push_heads = [n.id for n in fl.cfg.nodes if n.kind == "loop-head" and "first_normal_node" in n.label]
        main_heads = [n.id for n in fl.cfg.nodes if n.kind == "loop-head" and "evaluation_cursor" in n.label]
        if not push_heads or not main_heads:
            raise AnalysisError("anchor-vanished", "push / main loops of evaluate_impl not found")
        in_push = lambda n: ev(n) and any(h in n.loops for h in push_heads)
        in_main = lambda n: ev(n) and any(h in n.loops for h in main_heads)
        w = fl.reach(fl.states_of(in_main), targets=in_push)
        run.count(1, "C16.e.order")
        if w is not None:
            run.finding("C16.e", "evaluate_impl:push-after-main", "a push-source evaluation is reachable after a normal node evaluation",
                        loc=fl.cfg.describe(w[-1][0]))
        st = R.find(fa, lambda n: isinstance(n, C.Binary) and n.op == "=" and cn(n.l) == "first_normal_node")
        if len(st) != 1 or cn(st[0].r) != "graph.schema()->push_source_nodes_end":
            run.finding("C16.e", "evaluate_impl:first-normal-node", f"first_normal_node must be schema push_source_nodes_end: {[cn(s.r) for s in st]}",
                        loc=GRAPH)

    # ---- f. stop protocol -----------------------------------------------------------------------------------
    with run.obligation("C16.f", "K2+K1", "QueuePolicyStorage::stop clears accepting under the lock then notifies; push_source_stop: "
                        "begin_close -> policy stop -> wait_for_quiescence -> detach; enter refuses iff closing or detached; leave "
                        "notifies iff the count reaches zero"):
        fa = R.fn(run, PUSH, "stop", cls="QueuePolicyStorage")
        acc = R.lock_accesses(fa, r"mutex", ["accepting", "capacity_available"])
        for node, fld, held in acc:
            run.count(1)
            if fld == "capacity_available" and held:
                run.finding("C16.f", "QueuePolicyStorage::stop:notify-under-lock", "notify_all must follow the lock scope", loc=fa.loc(node))
        fl = R.flow(run, fa)
        wake = fl.nodes_of(R.call_is(name="notify_all", recv=r"capacity_available"))
        run.count(1, "C16.f.wake-all")
        if not wake:
            others = [f"{n_.recv}.{n_.name}" for n_ in fl.cfg.nodes if n_.kind == "call" and n_.name.startswith("notify")]
            run.finding("C16.f", "QueuePolicyStorage::stop:not-notify-all", "stop must wake EVERY producer blocked in send_blocking (capacity_available.notify_all()); "
                        f"found {others or 'no notification'}: with two or more blocked producers all but one wait for ever and stop never returns", loc=PUSH)
        else:
            R.k2_precede(run, "C16.f", fl, R.store_is(r"accepting", r"false"), R.call_is(name="notify_all"), "accepting:=false before notify_all")
        fa = R.fn(run, PUSH, "push_source_stop")
        fl = R.flow(run, fa)
        chain = [R.call_is(name="begin_close"), R.call_is(callee=r"detail::PushSourcePolicyAccess::stop"),
                 R.call_is(name="wait_for_quiescence"), R.call_is(name="detach")]
        names = ["begin_close", "policy stop", "wait_for_quiescence", "detach"]
        for i in range(len(chain) - 1):
            # later event never precedes the earlier one: no path from later to earlier, and earlier precedes later when control exists
            R.k2_never_after(run, "C16.f", fl, chain[i + 1], chain[i], f"{names[i]} after {names[i + 1]}")
        R.k2_precede(run, "C16.f", fl, chain[1], chain[2], "policy stop before wait_for_quiescence")
        R.k2_precede(run, "C16.f", fl, chain[2], chain[3], "wait_for_quiescence before detach")
        fa = R.fn(run, PUSH, "enter", cls="PushSourceSenderControl")
        roles = [Role("CLOSING", "bool", r"closing_"), Role("DETACHED", "bool", r"nullptr==storage_")]
        R.k1(run, "C16.f", fa, roles, lambda v: Expect(ret=False, calls=[]) if (v.b("CLOSING") or v.b("DETACHED")) else
             Expect(ret=True, dont_care=()), what="PushSourceSenderControl::enter")
        cnt = R.find(fa, lambda n: isinstance(n, (C.Unary, C.Postfix)) and n.op == "++" and R.Canon()(n.e) == "active_calls_")
        if len(cnt) != 1:
            run.finding("C16.f", "enter:count", "enter() must increment active_calls_ exactly once on success", loc=PUSH)
        fa = R.fn(run, PUSH, "leave", cls="PushSourceSenderControl")
        cn = R.aliases_of(fa)
        ifs = [s for s in fa.body.walk() if isinstance(s, C.If)]
        ok = len(ifs) == 1 and cn(ifs[0].cond) in ("--active_calls_==0", "0==--active_calls_") and bool(R.calls(ifs[0].then, "notify_all"))
        run.count(1, "C16.f.leave")
        if not ok:
            run.finding("C16.f", "leave:notify", "leave() must notify quiescent_ iff --active_calls_ == 0", loc=PUSH)
        fa = R.fn(run, PUSH, "wait_for_quiescence", cls="PushSourceSenderControl")
        ws = R.calls(fa, "wait")
        okw = len(ws) == 1 and len(ws[0].args) == 2 and isinstance(ws[0].args[1], C.Lambda) and \
            [R.Canon()(r.e) for r in R.find(ws[0].args[1].body, lambda n: isinstance(n, C.Return))] in (["active_calls_==0"], ["0==active_calls_"])
        run.count(1, "C16.f.quiescence")
        if not okw:
            run.finding("C16.f", "wait_for_quiescence:predicate", "wait_for_quiescence must wait with predicate active_calls_ == 0", loc=PUSH)

    # ---- g. one value per cycle ---------------------------------------------------------------------------------
    with run.obligation("C16.g", "K1+K5", "queue_policy_emit_next pops exactly one value (not in a loop), applies exactly it and returns "
                        "more_pending; burst takes the whole deque once; the policy tables name the matching functions"):
        fa = R.fn(run, PUSH, "queue_policy_emit_next")
        cn = R.aliases_of(fa)
        pops = R.calls(fa, "try_pop")
        run.count(1, "C16.g")
        if len(pops) != 1 or R.loops(fa):
            run.finding("C16.g", "queue_policy_emit_next:pop-count", "queue policy must pop exactly one value per evaluation (no loop)", loc=PUSH)
        roles = [Role("HAS", "bool", r".*try_pop\(\)\.has_value\(\)|item\.has_value\(\)")]

        def spec_emit(v):
            if not v.b("HAS"):
                return Expect(ret=False, calls=[])
            return Expect(calls=[("APPLY", (("sym", r"output"), ("sym", r".*try_pop\(\)->value\.view\(\)|item->value\.view\(\)")))],
                          ret=("sym", r".*try_pop\(\)->more_pending|item->more_pending"))
        R.k1(run, "C16.g", fa, roles, spec_emit, role_calls={"APPLY": r"apply_delta|apply_current_value"}, what="queue_policy_emit_next")
        fa = R.fn(run, PUSH, "burst_policy_emit_next")
        takes = R.calls(fa, "take_all")
        rets = [R.Canon()(r.e) for r in R.find(fa, lambda n: isinstance(n, C.Return))]
        if len(takes) != 1 or R.loops(fa) or set(rets) != {"false"}:
            run.finding("C16.g", "burst_policy_emit_next", f"burst policy must take the whole deque once and never re-arm: takes={len(takes)} returns={rets}", loc=PUSH)
        want = {"queue_policy_ops": ("queue_policy_start", "queue_policy_stop", "queue_policy_try_send", "queue_policy_send_blocking", "queue_policy_emit_next"),
                "conflating_policy_ops": ("conflating_policy_start", "conflating_policy_stop", "conflating_policy_try_send", "conflating_policy_send_blocking", "conflating_policy_emit_next"),
                "burst_policy_ops": ("burst_policy_start", "queue_policy_stop", "queue_policy_try_send", "queue_policy_send_blocking", "burst_policy_emit_next")}
        for tab, fns in want.items():
            slots = R.designated_slots(R.fn(run, PUSH, tab).body)
            got = tuple(slots.get(k, "").lstrip("&") for k in ("start_impl", "stop_impl", "try_send_impl", "send_blocking_impl", "emit_next_impl"))
            run.count(1, f"C16.g.{tab}")
            if got != fns:
                run.finding("C16.g", f"{tab}:slots", f"{tab} wires {got}, expected {fns}", loc=PUSH)

    with run.obligation("C16.i", "K2", "a start that fails rolls the source back with the SAME shutdown protocol as stop: begin_close -> policy stop (clears accepting and "
                        "wakes producers blocked in send_blocking) -> wait_for_quiescence -> detach; waiting for quiescence before the policy stop deadlocks with a "
                        "producer that is already blocked on a full queue"):
        fa = R.fn(run, PUSH, "push_source_start")
        lams = [g.lam for g in R.flow(run, fa).cfg.guards.values() if g.name == "rollback" and g.lam is not None]
        run.sites(len(lams), 1, "push_source_start rollback guard")
        lfa = C.FuncAST(fa.fd, fa.fi, lams[0].body, [], [])
        fl = R.flow(run, lfa)
        chain = [R.call_is(name="begin_close"), R.call_is(callee=r"detail::PushSourcePolicyAccess::stop"),
                 R.call_is(name="wait_for_quiescence"), R.call_is(name="detach")]
        names = ["begin_close", "policy stop", "wait_for_quiescence", "detach"]
        for i in range(len(chain) - 1):
            R.k2_never_after(run, "C16.i", fl, chain[i + 1], chain[i], f"rollback: {names[i]} after {names[i + 1]}")
        R.k2_precede(run, "C16.i", fl, chain[1], chain[2], "rollback: policy stop before wait_for_quiescence")
        R.k2_precede(run, "C16.i", fl, chain[2], chain[3], "rollback: wait_for_quiescence before detach")

    with run.obligation("C16.j", "K11", "within capacity: every policy factory that takes a capacity (`max_pending`) hands it to the policy context it registers - a factory that "
                        "drops the argument builds an unbounded queue (no try_send refusal, no back-pressure)"):
        fi_ = run.tree.file(PUSH)
        cn = R.Canon()
        n_f = 0
        for fd_ in fi_.funcs:
            if fd_.body is None:
                continue
            fa_ = R.parse(run, fd_, strict=False)
            if not any(nm == "max_pending" for ty, nm in fa_.params):
                continue
            n_f += 1
            run.count(1, "C16.j")
            t_ = R.taint_closure(fa_, ["max_pending"])
            uses = [c for c in R.calls(fa_) if any(isinstance(x, C.Id) and x.name in t_ for a in c.args for x in a.walk())]
            stores = [n_ for n_ in fa_.body.walk() if isinstance(n_, (C.Desig,)) and any(isinstance(x, C.Id) and x.name in t_ for x in n_.value.walk())]
            inits = [n_ for n_ in fa_.body.walk() if isinstance(n_, C.Init) and any(isinstance(x, C.Id) and x.name in t_ for e in n_.elems if isinstance(e, C.Node) for x in e.walk())]
            if not uses and not stores and not inits:
                run.finding("C16.j", f"{fd_.name}#{len(fa_.params)}:{fa_.params[0][0].split()[1] if len(fa_.params[0][0].split()) > 1 else fa_.params[0][0]}:capacity-dropped",
                            f"{fd_.qual}({', '.join(ty for ty, nm in fa_.params)}) never uses its `max_pending` argument: the policy it builds is unbounded", loc=fa_.loc(fa_.body))
        run.sites(n_f, 4, "functions taking a capacity")

    with run.obligation("C16.k", "K2", "stop protocol of the source node itself: the policy stop (clears accepting, wakes every producer parked in send_blocking) runs BEFORE the "
                        "user's on_stop hook and before the wait for quiescence - an on_stop that joins its producer thread (the start-thread-in-on_start idiom) would "
                        "otherwise wait for a send that only the later policy stop can fail; begin_close never after the policy stop, detach never before the wait"):
        fa = R.fn(run, PUSH, "push_source_stop")
        fl = R.flow(run, fa)
        pstop = R.call_is(callee=r"detail::PushSourcePolicyAccess::stop")
        hook = R.call_is(callee=r"context\.on_stop")
        waitq = R.call_is(name="wait_for_quiescence")
        R.k2_precede(run, "C16.k", fl, pstop, hook, "stop: policy stop before the user's on_stop hook")
        R.k2_precede(run, "C16.k", fl, pstop, waitq, "stop: policy stop before wait_for_quiescence")
        R.k2_never_after(run, "C16.k", fl, pstop, R.call_is(name="begin_close"), "stop: begin_close after the policy stop")
        R.k2_never_after(run, "C16.k", fl, R.call_is(name="detach"), waitq, "stop: wait_for_quiescence after detach")


def cn_text(node, cn) -> str:
    return " ".join(cn(c) for c in R.calls(node))


ANYARGS = ("anyargs",)

VARIANTS = [
    {"id": "k-seed-C16-5-policy-stop-deferred-past-on-stop", "expect": "C16.k", "edits": [{"file": PUSH, "find": "            detail::PushSourcePolicyAccess::stop(context.policy, policy_storage(context, view.data()));\n            if (control)\n            {\n                control->wait_for_quiescence();\n            }\n            auto detach = make_scope_exit([&] {\n                if (control) { control->detach(); }\n                control_slot.reset();\n            });", "replace": "            auto release = make_scope_exit([&] {\n                detail::PushSourcePolicyAccess::stop(context.policy, policy_storage(context, view.data()));\n                if (control)\n                {\n                    control->wait_for_quiescence();\n                    control->detach();\n                }\n                control_slot.reset();\n            });"}]},
    {"id": "i-rollback-waits-before-policy-stop", "expect": "C16.i", "edits": [{"file": PUSH, "find": "                if (control) { control->begin_close(); }\n                detail::PushSourcePolicyAccess::stop(context.policy, storage);\n                if (control)\n                {\n                    control->wait_for_quiescence();\n                    control->detach();\n                    control.reset();\n                }\n            });", "replace": "                if (control)\n                {\n                    control->begin_close();\n                    control->wait_for_quiescence();\n                    control->detach();\n                    control.reset();\n                }\n                detail::PushSourcePolicyAccess::stop(context.policy, storage);\n            });"}]},
    {"id": "j-value-schema-queue-factory-drops-capacity", "expect": "C16.j", "edits": [{"file": PUSH, "find": "        return make_policy(queue_policy_ops(), sender_schema, nullptr, max_pending);", "replace": "        return make_push_source_policy(PushSourcePolicyKind::Queue, sender_schema, nullptr);"}]},
    {"id": "f-stop-wakes-one-producer", "expect": "C16.f", "edits": [{"file": PUSH, "find": "                    consumer_thread = {};\n                }\n                capacity_available.notify_all();", "replace": "                    consumer_thread = {};\n                }\n                capacity_available.notify_one();"}]},
    {"id": "a-unlocked-read", "expect": "C16.a", "edits": [{"file": PUSH, "find": "            [[nodiscard]] std::size_t pending_items() const noexcept\n            {\n                std::lock_guard lock{mutex};\n                return values.size();", "replace": "            [[nodiscard]] std::size_t pending_items() const noexcept\n            {\n                return values.size();"}]},
    {"id": "a-realtime-flag-unlocked", "expect": "C16.a", "edits": [{"file": EXEC, "find": "            auto &state = realtime_storage(memory);\n            std::lock_guard lock{state.mutex};\n            return state.push_update_pending;", "replace": "            auto &state = realtime_storage(memory);\n            return state.push_update_pending;"}]},
    {"id": "a-bracket-removed", "expect": "C16", "edits": [{"file": PUSH, "find": "                if (!enter())\n                {\n                    return false;\n                }\n                auto leave_call = make_scope_exit([this] { leave(); });\n                if (push_engine_.stop_requested())\n                {\n                    return false;\n                }\n\n                const PushSourceSendResult result =\n                    policy_.ops_->try_send_impl", "replace": "                if (push_engine_.stop_requested())\n                {\n                    return false;\n                }\n\n                const PushSourceSendResult result =\n                    policy_.ops_->try_send_impl"}]},
    {"id": "b-full-gt", "expect": "C16.b", "edits": [{"file": PUSH, "find": "return max_pending != 0 && values.size() >= max_pending;", "replace": "return max_pending != 0 && values.size() > max_pending;"}]},
    {"id": "b-was-empty-after-push", "expect": "C16.b", "edits": [{"file": PUSH, "find": "                const bool was_empty = values.empty();\n                values.push_back(std::move(value));\n                return {.accepted = true, .wake_required = was_empty};\n            }\n\n            [[nodiscard]] PushSourceSendResult send_blocking", "replace": "                values.push_back(std::move(value));\n                const bool was_empty = values.empty();\n                return {.accepted = true, .wake_required = was_empty};\n            }\n\n            [[nodiscard]] PushSourceSendResult send_blocking"}]},
    {"id": "b-no-recheck-after-wait", "expect": "C16.b", "edits": [{"file": PUSH, "find": "                capacity_available.wait(lock, [this] { return !accepting || !full(); });\n                if (!accepting)\n                {\n                    return {};\n                }\n", "replace": "                capacity_available.wait(lock, [this] { return !accepting || !full(); });\n"}]},
    {"id": "b-wait-predicate", "expect": "C16.b", "edits": [{"file": PUSH, "find": "[this] { return !accepting || !full(); }", "replace": "[this] { return !full(); }"}]},
    {"id": "b-more-pending-before-pop", "expect": "C16.b", "edits": [{"file": PUSH, "find": "                values.pop_front();\n                result.more_pending = !values.empty();", "replace": "                result.more_pending = !values.empty();\n                values.pop_front();"}]},
    {"id": "c-lifo", "expect": "C16", "edits": [{"file": PUSH, "find": "                    .value = std::move(values.front()),", "replace": "                    .value = std::move(values.back()),"}, {"file": PUSH, "find": "                values.pop_front();", "replace": "                values.pop_back();"}]},
    {"id": "d-notify-before-set", "expect": "C16.d", "edits": [{"file": EXEC, "find": "                if (state.stop_requested.load(std::memory_order_acquire)) { return; }\n                state.push_update_pending = true;\n            }\n            state.condition.notify_all();", "replace": "                if (state.stop_requested.load(std::memory_order_acquire)) { return; }\n            }\n            state.condition.notify_all();\n            state.push_update_pending = true;"}]},
    {"id": "d-rearm-dropped", "expect": "C16.d", "edits": [{"file": PUSH, "find": "            if (more_pending)\n            {\n                view.graph().root().executor().push_queue_engine().mark_push_update_pending();\n            }", "replace": "            static_cast<void>(more_pending);"}]},
    {"id": "d-wake-only-if-not-accepted", "expect": "C16.d", "edits": [{"file": PUSH, "find": "                if (result.accepted && result.wake_required)\n                {\n                    push_engine_.mark_push_update_pending();", "replace": "                if (result.accepted && !result.wake_required)\n                {\n                    push_engine_.mark_push_update_pending();"}]},
    {"id": "d2-realtime-gets-sim-mark", "expect": "C16.d2", "edits": [{"file": EXEC, "find": ".mark_push_update_pending_impl = &realtime_mark_push_update_pending_impl,", "replace": ".mark_push_update_pending_impl = &simulation_mark_push_update_pending_impl,"}]},
    {"id": "e-reset-in-loop", "expect": "C16.e", "edits": [{"file": GRAPH, "find": "        const bool push_update_pending = push_queue.reset_push_update_pending();\n        bool push_phase_evaluated = push_update_pending;\n        for (std::size_t index = 0; index < first_normal_node; ++index) {", "replace": "        bool push_phase_evaluated = false;\n        for (std::size_t index = 0; index < first_normal_node; ++index) {\n          const bool push_update_pending = push_queue.reset_push_update_pending();"}]},
    {"id": "f-detach-before-quiescence", "expect": "C16.f", "edits": [{"file": PUSH, "find": "            if (control)\n            {\n                control->wait_for_quiescence();\n            }\n            auto detach = make_scope_exit([&] {\n                if (control) { control->detach(); }\n                control_slot.reset();\n            });", "replace": "            if (control) { control->detach(); }\n            if (control)\n            {\n                control->wait_for_quiescence();\n            }\n            auto detach = make_scope_exit([&] {\n                control_slot.reset();\n            });"}]},
    {"id": "f-enter-ignores-closing", "expect": "C16.f", "edits": [{"file": PUSH, "find": "if (closing_ || storage_ == nullptr)", "replace": "if (storage_ == nullptr)"}]},
    {"id": "g-drain-all", "expect": "C16.g", "edits": [{"file": PUSH, "find": "            apply_delta(output, item->value.view());\n            return item->more_pending;", "replace": "            apply_delta(output, item->value.view());\n            return false;"}]},
    {"id": "g-burst-uses-queue-emit", "expect": "C16.g", "edits": [{"file": PUSH, "find": "                .emit_next_impl = &burst_policy_emit_next,", "replace": "                .emit_next_impl = &queue_policy_emit_next,"}]},
    {"id": "b2-pending-overwritten", "expect": "C16.b2", "edits": [{"file": PUSH, "find": "pending = pending || accumulator.view(mutation_time).modified();", "replace": "pending = accumulator.view(mutation_time).modified();"}]},
    {"id": "b2-wake-always", "expect": "C16.b2", "edits": [{"file": PUSH, "find": ".wake_required = pending && !was_pending,", "replace": ".wake_required = !was_pending,"}]},
    {"id": "h-floor-lost", "expect": "C16.h", "edits": [{"file": EXEC, "find": "std::max(wall_now, next_cycle);", "replace": "std::max(wall_now, state.evaluation_time);"}]},
    {"id": "b-twin-demorgan", "expect": None, "edits": [{"file": PUSH, "find": "return max_pending != 0 && values.size() >= max_pending;", "replace": "return !(max_pending == 0 || values.size() < max_pending);"}]},
]
