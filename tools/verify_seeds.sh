#!/bin/bash
# every kept seeded change must be reported (exit 1 with a VIOLATION line) by the check of its OWN property (in-memory patch overlay; /repo untouched)
cd /verif
fail=0
for d in seeded/*/; do
  s=$(basename $d); p=${s%-*}
  ( out=$(HGV_PATCH=$(readlink -f $d/patch.diff) HGV_EVIDENCE_DIR=/tmp/hgv_try_evidence_$BASHPID python3-vt -m hgv check $p 2>&1); n=$(echo "$out" | grep -c "^VIOLATION"); e=$(echo "$out" | grep -c "^ANALYSIS-ERROR")
    if [ "$n" = "0" ]; then echo "MISSED $s (errors=$e)"; fi ) &
  while [ $(jobs -r | wc -l) -ge 8 ]; do sleep 0.5; done
done; wait; echo "verify_seeds done"
