#!/usr/bin/env python3
"""twin_noop.py <ID>...: robustness probe ("never alarm on code where the property holds").
For every function a property's rules analysed, build behaviour-preserving variants and run the whole check on the overlay:
  A  a no-op statement `static_cast<void>(0);` as the first statement of the body
  B  the same no-op as the LAST statement before the closing brace of a void function / constructor (only when the body does not
     end in a return) - skipped otherwise
  C  an unrelated local `[[maybe_unused]] const int hgv_probe_unused = 0;` as the first statement
  D  a call of an unknown free function `hgv_probe_trace("enter");` as the first statement (what adding a trace line does; the
     call may throw, but before the function has done anything)
Every finding / analysis error is a rule that keys on statement positions instead of on the construct it is about."""
import os, re, sys
sys.path.insert(0, "/verif")
from hgv.__main__ import run_check, load
from hgv.report import Run, load_known

def variants(tree, rel, fd):
    fi = tree.file(rel)
    toks = fi.toks
    a, b = fd.body
    if toks[a].text != "{" or toks[b].text != "}":
        return
    text = tree.read(rel)
    lines = text.split("\n")
    def insert_after(tk, s):
        L = list(lines)
        ln = L[tk.line - 1]
        c = tk.col - 1 if ln[tk.col - 1:tk.col] == tk.text[0] else (tk.col if ln[tk.col:tk.col + 1] == tk.text[0] else None)
        if c is None:
            return None
        L[tk.line - 1] = ln[:c + 1] + " " + s + " " + ln[c + 1:]
        return "\n".join(L)
    def insert_before(tk, s):
        L = list(lines)
        ln = L[tk.line - 1]
        c = tk.col - 1 if ln[tk.col - 1:tk.col] == tk.text[0] else (tk.col if ln[tk.col:tk.col + 1] == tk.text[0] else None)
        if c is None:
            return None
        L[tk.line - 1] = ln[:c] + " " + s + " " + ln[c:]
        return "\n".join(L)
    v = insert_after(toks[a], "static_cast<void>(0);")
    if v:
        yield "A", v
    v = insert_after(toks[a], "[[maybe_unused]] const int hgv_probe_unused = 0;")
    if v:
        yield "C", v
    v = insert_after(toks[a], 'hgv_probe_trace("enter");')
    if v:
        yield "D", v
    # B: only if the token before the closing brace is ';' or '}' and the last statement is not a return/throw
    k = b - 1
    j = k
    depth = 0
    while j > a:
        t = toks[j].text
        if t in (")", "}", "]"):
            depth += 1
        elif t in ("(", "{", "["):
            depth -= 1
        if depth == 0 and j < k and toks[j].text in (";", "{", "}"):
            break
        j -= 1
    last = [toks[i].text for i in range(j + 1, k + 1)]
    if last and last[0] not in ("return", "throw", "co_return") and "return" not in last[:1]:
        sig = "".join(t.text for t in toks[max(0, a - 40):a])
        if re.search(r"\bvoid\b", sig) and "->" not in sig:
            v = insert_before(toks[b], "static_cast<void>(0);")
            if v:
                yield "B", v

def main():
    which = os.environ.get("TWIN_KINDS", "ABCD")
    for prop in sys.argv[1:]:
        base = run_check(prop, "quick", quiet=True)
        known = [k for k in load_known() if k.get("status", "known") == "known"]
        mod = load(prop)
        n = bad = 0
        for key in sorted(base.functions):
            rel, qual = key.split("::", 1)
            fds = [f for f in base.tree.file(rel).funcs if f.qual == qual and f.body is not None]
            for fd in fds[:1]:
                for kind, new in variants(base.tree, rel, fd):
                    if kind not in which:
                        continue
                    n += 1
                    t2 = base.tree.with_overlay({rel: new})
                    run = Run(prop, "selftest", t2, quiet=True)
                    try:
                        mod.check(run)
                    except Exception as e:
                        run.errors.append(f"internal {e!r}")
                    fresh = [f for f in run.findings if not any(k["property"] == f.prop and k["rule"] == f.rule and k["key"] == f.key for k in known)]
                    if fresh or run.errors:
                        bad += 1
                        print(f"{prop} BRITTLE on no-op {kind} in {rel}::{qual}:", flush=True)
                        for f in fresh[:3]:
                            print(f"     FINDING {f.rule} {f.key[:80]} :: {f.message[:200]}")
                        for e in run.errors[:3]:
                            print(f"     ERROR {e[:300]}")
        print(f"{prop}: {n} no-op twins, {bad} brittle", flush=True)

main()
