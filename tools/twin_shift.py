#!/usr/bin/env python3
"""twin_shift.py <ID>...: behaviour-preserving twin: every source file the property reads gets three comment lines prepended and every
tab/indent run doubled (line numbers and columns change, tokens do not).  Every check must stay silent."""
import sys, re
sys.path.insert(0, "/verif")
from hgv.__main__ import run_check, load
from hgv.report import Run, load_known
for prop in sys.argv[1:]:
    base = run_check(prop, "quick", quiet=True)
    known = [k for k in load_known() if k.get("status", "known") == "known"]
    ov = {}
    for rel in base.tree.read_log:
        txt = base.tree.read(rel)
        txt = "// twin\n/* shifted\n   lines */\n" + re.sub(r"(?m)^( +)", lambda m: m.group(1) * 2, txt)
        ov[rel] = txt
    t2 = base.tree.with_overlay(ov)
    run = Run(prop, "selftest", t2, quiet=True)
    try:
        load(prop).check(run)
    except Exception as e:
        run.errors.append(f"internal {e!r}")
    fresh = [f for f in run.findings if not any(k["property"] == f.prop and k["rule"] == f.rule and k["key"] == f.key for k in known)]
    print(prop, "files", len(ov), "findings", len(fresh), "errors", len(run.errors))
    for f in fresh[:3]:
        print("   FINDING", f.rule, f.key[:80], f.message[:120])
    for e in run.errors[:3]:
        print("   ERROR", e[:200])
