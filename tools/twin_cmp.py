#!/usr/bin/env python3
"""twin_cmp.py <ID>...: behaviour-preserving twin: in every function the property's rules analyse, every `if (A == B)` / `if (A != B)`
whose operands are free of top-level logical operators gets its operands swapped, and every `if (A < B)` style comparison is mirrored
(`B > A`).  Every check must stay silent."""
import sys, re
sys.path.insert(0, "/verif")
from hgv.__main__ import run_check, load
from hgv.report import Run, load_known
MIRROR = {"==": "==", "!=": "!=", "<": ">", ">": "<", "<=": ">=", ">=": "<="}

def twin_file(tree, rel, spans):
    fi = tree.file(rel)
    toks = fi.toks
    text = tree.read(rel)
    lines = text.split("\n")
    off = [0]
    for l in lines:
        off.append(off[-1] + len(l) + 1)
    def pos(tk, end=False):
        c = tk.col - 1 if lines[tk.line - 1][tk.col - 1:tk.col - 1 + len(tk.text)] == tk.text else tk.col
        return off[tk.line - 1] + c + (len(tk.text) if end else 0)
    edits = []
    for a, b in spans:
        k = a
        while k < b:
            if toks[k].kind == "id" and toks[k].text == "if" and toks[k + 1].text == "(":
                o = k + 1
                c = fi.match[o]
                depth = 0
                ops = []
                bad = False
                j = o + 1
                while j < c:
                    x = toks[j]
                    if x.kind == "op" and x.text in "([{":
                        j = fi.match[j] + 1
                        continue
                    if x.kind == "op" and x.text in ("&&", "||", "?", ",", ";", "=", "<<", ">>", "<=>"):
                        bad = True
                    if x.kind == "op" and x.text in MIRROR:
                        ops.append(j)
                    if x.kind == "id" and x.text in ("constexpr", "auto", "const"):
                        bad = True
                    j += 1
                # template angle brackets make '<' ambiguous: only handle == and != unless no '<'/'>' tokens at all
                if not bad and len(ops) == 1 and toks[ops[0]].text in ("==", "!=") and ops[0] > o + 1 and ops[0] < c - 1:
                    m = ops[0]
                    la, lb = pos(toks[o + 1]), pos(toks[m - 1], True)
                    ra, rb = pos(toks[m + 1]), pos(toks[c - 1], True)
                    edits.append((la, rb, text[ra:rb] + " " + MIRROR[toks[m].text] + " " + text[la:lb]))
                k = c
            k += 1
    if not edits:
        return None, 0
    out = text
    for a, b, new in sorted(edits, reverse=True):
        out = out[:a] + new + out[b:]
    return out, len(edits)

for prop in sys.argv[1:]:
    base = run_check(prop, "quick", quiet=True)
    known = [k for k in load_known() if k.get("status", "known") == "known"]
    by_file = {}
    for key in base.functions:
        rel, qual = key.split("::", 1)
        for fd in base.tree.file(rel).funcs:
            if fd.qual == qual and fd.body is not None:
                by_file.setdefault(rel, []).append(fd.body)
    ov = {}
    n = 0
    for rel, spans in by_file.items():
        new, k = twin_file(base.tree, rel, spans)
        if new is not None:
            ov[rel] = new
            n += k
    t2 = base.tree.with_overlay(ov)
    run = Run(prop, "selftest", t2, quiet=True)
    try:
        load(prop).check(run)
    except Exception as e:
        run.errors.append(f"internal {e!r}")
    fresh = [f for f in run.findings if not any(k["property"] == f.prop and k["rule"] == f.rule and k["key"] == f.key for k in known)]
    print(prop, "comparisons swapped", n, "findings", len(fresh), "errors", len(run.errors))
    for f in fresh[:6]:
        print("   FINDING", f.rule, f.key[:80], f.message[:140])
    for e in run.errors[:4]:
        print("   ERROR", e[:220])
