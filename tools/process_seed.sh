#!/bin/bash
# usage: process_seed.sh <seed-id>   confirm (base passes, patched fails) in the property's scratch worktree, then overlay-run all checks
S="$1"; P=${S%-*}; D=/tmp/seed/$P/out/$S
[ -f "$D/patch.diff" ] || { echo "$S: no patch.diff"; exit 1; }
bash /verif/tools/confirm_seed.sh "$D" /tmp/seed/$P/wt > /dev/null 2>&1
echo "$S confirm: $(cat $D/confirm.txt)"
bash /verif/tools/try_patch.sh "$D/patch.diff" > "$D/try.txt" 2>&1
echo "$S detection: $(grep '^==' $D/try.txt | tr '\n' ' ')"
