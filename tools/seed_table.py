#!/usr/bin/env python3
"""Emits the markdown table of /verif/seeded/* for DESIGN.md section 10 (title, what it needs, first run, rules now)."""
import glob, json, os
FIRST = {  # result of the FIRST run of my checks against the seed, recorded when it happened
    "C01-2": "missed", "C02-2": "missed", "C04-1": "missed", "C04-2": "missed", "C05-2": "missed", "C14-2": "missed", "C16-1": "missed",
    "C16-2": "missed", "C17-1": "missed", "C18-2": "missed", "C12-2": "missed", "C15-2": "missed", "C09-1": "missed", "C10-1": "missed",
    "C10-2": "missed", "C19-2": "missed", "C19-1": "exit 2 (vacuous-rule), no finding", "C06-2": "other property only (C01.a)",
    "C08-2": "other property only (C03.e)",
    "C01-4": "other property only (C11.b)", "C03-3": "missed", "C03-4": "other property only (C02.a, C08.e)", "C02-4": "missed",
    "C04-3": "exit 2 in C05 (anchor-vanished), no finding", "C04-4": "missed", "C05-3": "missed", "C09-4": "missed", "C10-3": "missed", "C10-4": "missed",
    "C16-4": "exit 2 (anchor-vanished), no finding",
    "C06-3": "other property only (C03.e2, C08.f)", "C06-4": "missed", "C08-3": "missed", "C11-4": "missed", "C12-3": "missed",
    "C18-3": "other property only (C02.a, C03.g)", "C19-3": "missed", "C19-4": "missed", "C12-4": "missed", "C07-3": "missed", "C07-4": "missed", "C20-3": "missed", "C20-4": "missed",
    "C11-1": "missed", "C11-2": "missed", "C07-1": "missed", "C07-2": "missed", "C20-1": "missed", "C13-2": "missed",
    # wave 4 (ids -5 / -6): first run = the checks as committed at the start of the session (88530b0), measured with /tmp/first_run.sh over a worktree of that commit
    "C01-5": "exit 2 in C01 (vacuous-rule); other property (C06.a, C15.k)", "C02-5": "other property only (C01.d2, C03.h, C15.h)", "C02-6": "other property only (C08.g, C15.c, C17.f)",
    "C03-6": "missed", "C04-5": "missed", "C05-5": "missed", "C07-5": "missed", "C07-6": "other property only (C18.f)", "C09-5": "other property only (C06.f)",
    "C09-6": "other property only (C08.g, C15.c, C17.f)", "C10-5": "missed", "C11-5": "missed", "C12-5": "missed", "C13-6": "missed", "C14-6": "missed", "C16-5": "missed",
    "C17-5": "other property only (C02.c, C08.g)", "C17-6": "other property only (C02.d)", "C20-5": "missed",
    # wave 5 (ids -7 / -8): first run = the checks frozen at the commit the wave was launched from (aa0ef0e), measured serially with /tmp/first_run.sh
    "C01-7": "missed", "C01-8": "missed", "C02-7": "other property only (C12.a)", "C02-8": "other property only (C03.f, C14.e, C18.h)", "C03-8": "missed", "C04-8": "missed",
    "C05-8": "missed", "C06-8": "missed", "C07-7": "missed", "C07-8": "missed", "C08-7": "other property only (C02.h, C09.d, C10.m, C17.f)", "C08-8": "missed",
    "C09-7": "other property only (C01.j, C06.a, C15.k)", "C09-8": "other property only (C06.b)", "C10-7": "missed", "C10-8": "missed", "C11-8": "missed", "C12-8": "missed",
    "C13-7": "missed", "C14-7": "missed", "C14-8": "missed", "C15-7": "missed", "C15-8": "missed", "C17-7": "other property only (C02.g, C03.d, C15.a, C18.e)",
    "C17-8": "other property only (C16.b2)", "C18-8": "other property only (C14.e)", "C19-7": "missed", "C19-8": "missed", "C20-8": "other property only (C07.f)",
    # wave 6 (ids -9, one change per agent, 35-minute budget): first run against the checks frozen at 5e970ee
    "C01-9": "missed", "C07-9": "missed", "C14-9": "other property only (C01.d2, C02.l, C03.h, C15.h)", "C15-9": "other property only (C02.h, C08.i, C09.d, C10.m, C17.f)", "C19-9": "missed",
    "C13-9": "missed",
    # wave 7 (second batch of -9 ids, one change per agent, 11-minute budget): first run against the checks frozen at df99ac3
    "C03-9": "caught", "C09-9": "caught", "C17-9": "caught", "C20-9": "caught",
}
ADDED = {"C01-2": "C01.d fresh-only cursor", "C02-2": "C09.d/C02.h owner re-arm protocol", "C04-1": "C04.b children-before-clear", "C04-2": "C04.g accessor family",
         "C05-2": "C05.e2 ring re-base", "C14-2": "C14.f unconditional owner stop", "C16-1": "C16.b2 conflating pending flag", "C16-2": "C16.h (= C17.a table)",
         "C17-1": "C17.c2 stop flag cleared only before start", "C18-2": "C18.a3 advance always re-arms", "C12-2": "C12.d sampled binding of the fresh branch",
         "C15-2": "C15.g handlers only report", "C09-1": "C09.b2 evaluating bracket", "C10-1": "C10.h marker order", "C10-2": "C10.h candidate table",
         "C19-2": "C19.g match scope", "C19-1": "C19.b full-ordering requirement (finding instead of exit 2)", "C06-2": "C06.e rank pass shared into C06",
         "C08-2": "C08.f passive reader shared into C08", "C11-1": "C11.f leaf registration", "C11-2": "C11.b2 modified-leaves guard",
         "C07-1": "C07.c namespace-scope globals + thread_local markers", "C07-2": "C07.e intern lookups cover every field",
         "C01-4": "C01.g (C11.b shared into C01)", "C03-3": "C03.e explicit active list", "C03-4": "C03.g (C02.a shared into C03)",
         "C02-4": "C09.e / C02.h start -> propagate for try_except too", "C04-3": "C05.b missing window roll is a finding; C04.i shares C05.b/g",
         "C04-4": "C05.g removal tables / C04.i", "C05-3": "C05.g removal tables", "C09-4": "C09.g capture ordinals", "C10-3": "C10.k key-source compatibility",
         "C10-4": "C10.k per-cycle membership list", "C16-4": "C16.f wake-all requirement (finding instead of exit 2)",
         "C06-3": "C06.a2 whole-field comparison", "C06-4": "C06.f pass-through ordinal", "C08-3": "C08.b no stronger gate on the sink",
         "C11-4": "C11.g swap-remove bookkeeping", "C12-3": "C12.h output reset table (an earlier draft of this seed, withdrawn by its author, gave C12.g slot layout)", "C12-4": "C12.i keyword slot numbering", "C07-3": "C07.f GlobalState accumulators: recorder start erases its key on every path", "C07-4": "C07.g scope-stack pushes are owned (guard / RAII)", "C20-3": "C20.i recovery fold applies each delta at its own time", "C20-4": "C20.j list-storage copies carry the validity bitmap", "C18-3": "C18.g (C02.a shared into C18)",
         "C19-3": "C19.h match/resolve field agreement", "C19-4": "C19.i defaults counted",
         "C20-1": "C20.d all container captures", "C13-2": "C13.k slot-id bounds (slot ids are sparse)",
         "C01-5": "C01.j (C06.a shared into C01); C01.c floor is a vacuity guard", "C02-5": "C02.l (C01.d2 shared into C02)", "C02-6": "C02.m (C15.c shared into C02)",
         "C03-6": "C03.i prune-loop guard + has_any_active", "C04-5": "C05.k insertion tables / C04.l", "C05-5": "C05.l membership scans (slot_live)", "C07-5": "C07.j live-store selection agreement",
         "C07-6": "C07.h shares C18.f", "C09-5": "C09.k (C06.f shared into C09)", "C09-6": "C09.j (C15.c shared into C09)", "C10-5": "C10.n membership scans (slot_live)",
         "C11-5": "C11.f2 leaf containers reset / shrunk together", "C12-5": "C12.m sampling decisions test valid()", "C13-6": "C13.p modified-slot predicate = export scan during a retarget",
         "C14-6": "C14.j lookup before active_slot.reset()", "C16-5": "C16.k stop protocol of push_source_stop", "C17-5": "C17.h (C02.c shared into C17)", "C17-6": "C17.g (C02.d shared into C17)",
         "C20-5": "C20.m no-effect only after the modified map was tested",
         "C01-7": "C01.h table extended to the availability tail (paused dependency)", "C01-8": "C01.k mesh subscribe gate", "C02-7": "C02.n (C12.a shared into C02)",
         "C02-8": "C02.o (C03.f shared into C02)", "C03-8": "C03.k selector collectors number in input space", "C04-8": "C04.k guard not stronger than boundness",
         "C05-8": "C05.m decision table of TSD record_child_modified", "C06-8": "C06.j capture de-dup by same_source_as only", "C07-7": "C07.k lockset of TypeRecordRegistry",
         "C07-8": "C07.l GraphBuilder mutators discard cached types", "C08-7": "C08.i (C09.d shared into C08)", "C08-8": "C12.n key recorded after retirement / C08.h",
         "C09-7": "C09.o (C06.a shared into C09)", "C09-8": "C09.p (C06.b shared into C09)", "C10-7": "C10.o bitmap positions (rules.bitmap_positions)", "C10-8": "C10.p heap order: deadline first",
         "C11-8": "C11.l structural_leaves holds dense indices", "C12-8": "C12.o captures re-targeted through the shared slot table", "C13-7": "C13.q emptiness of a taken reference follows boundness",
         "C14-7": "C14.k rollback of rebuild_structure resets created combiners", "C14-8": "C14.l recorded clean-up failures are rethrown", "C15-7": "C15.n captured message verbatim",
         "C15-8": "C15.m derived capture builder carries every builder field", "C17-7": "C17.i (C18.e shared into C17)", "C17-8": "C17.j (C16.b2 shared into C17)",
         "C18-8": "C18.i (C14.e shared into C18)", "C19-7": "C19.l is-a direction", "C19-8": "C19.l input matcher keeps input semantics at every depth", "C20-8": "C20.n (C07.f shared into C20)",
         "C01-9": "C01.l finalizers before rank dependencies before ranking", "C07-9": "C07.m copy_from replaces unconditionally", "C14-9": "C14.m (C01.d2 shared into C14)",
         "C15-9": "C15.o (C09.d shared into C15)", "C19-9": "C19.m every occurrence re-checks its constraints", "C13-9": "C13.r AlternativeKey filled from the whole source identity (seed fails one in-tree Catch2 case; kept, labelled)"}
rows = []
for d in sorted(glob.glob("/verif/seeded/*/meta.json")):
    m = json.load(open(d))
    sid = m["seed"]
    own = m["property"]
    det = m.get("detected_by", {})
    rules = ", ".join(f"{', '.join(v['rules'])}" for k, v in sorted(det.items(), key=lambda kv: (kv[0] != own, kv[0])) if v["rules"])
    first = FIRST.get(sid, "caught")
    title = (m.get("title") or "").replace("|", "/")
    if len(title) > 230:
        title = title[:227] + "..."
    rows.append(f"| {sid} | {title} | {first} | {rules}{' — added: ' + ADDED[sid] if sid in ADDED else ''} |")
import sys, io
_out = io.StringIO()
_p = print
def print(*a, **k):
    _p(*a, **k, file=_out)
print("| seed | change (title given by the seeding agent) | first run | reported by (now; own property first) |")
print("|---|---|---|---|")
print("\n".join(rows))
n = len(rows)
caught = sum(1 for r in rows if "| caught |" in r)
w4 = [r for r in rows if r.split("|")[1].strip().endswith(("-5", "-6"))]
w5 = [r for r in rows if r.split("|")[1].strip().endswith(("-7", "-8"))]
w6 = [r for r in rows if r.split("|")[1].strip().endswith("-9")]
print(f"\nTotals: {n} seeded changes kept (each confirmed by me); first run: {caught} reported by the property's own check, "
      f"{sum(1 for r in rows if 'other property only' in r)} only by another property's check, {sum(1 for r in rows if 'exit 2' in r)} analysis error (exit 2), "
      f"{sum(1 for r in rows if '| missed |' in r)} missed; now all {n} are reported by their own property's check "
      f"({sum(1 for d in glob.glob('/verif/seeded/*/meta.json') if json.load(open(d)).get('detected_by_own_property'))} verified by tools/keep_seed.py). "
      f"Wave 4 alone ({len(w4)} changes, ids -5 / -6): first run {sum(1 for r in w4 if '| caught |' in r)} by the own check, "
      f"{sum(1 for r in w4 if 'other property' in r)} only by another property's check (one of them with an exit 2 in its own), {sum(1 for r in w4 if '| missed |' in r)} missed. "
      f"Wave 5 ({len(w5)} changes, ids -7 / -8, authors told to avoid every function an earlier seed touched): first run {sum(1 for r in w5 if '| caught |' in r)} by the own check, "
      f"{sum(1 for r in w5 if 'other property' in r)} only by another property's check, {sum(1 for r in w5 if '| missed |' in r)} missed. "
      f"Wave 6 ({len(w6)} changes, ids -9, one per agent in a 35-minute budget): first run {sum(1 for r in w6 if '| caught |' in r)} by the own check, "
      f"{sum(1 for r in w6 if 'other property' in r)} only by another property's check, {sum(1 for r in w6 if '| missed |' in r)} missed.")

txt = _out.getvalue()
if "--write" in sys.argv:
    p = "/verif/DESIGN.md"
    s = open(p).read()
    a = s.index("<!-- SEED-TABLE-BEGIN")
    a = s.index("\n", a) + 1
    b = s.index("<!-- SEED-TABLE-END -->")
    open(p, "w").write(s[:a] + txt + s[b:])
    _p("DESIGN.md section 10 table rewritten")
else:
    _p(txt)
