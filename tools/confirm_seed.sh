#!/bin/bash
# usage: confirm_seed.sh <seed-dir> <worktree>   -- confirms: demo passes on /repo, fails on worktree+patch
D="$1"; WT="$2"
cd "$WT" && git checkout -q -- . && git apply "$D/patch.diff" || { echo "APPLY FAILED" > "$D/confirm.txt"; exit 1; }
touch "$D/demo.cpp"
cp "$D/demo.cpp" "/tmp/demo/$(basename $D)_demo.cpp"
DEMO="/tmp/demo/$(basename $D)_demo.cpp"
( timeout 1800 python3 /verif/tools/hgbuild/hgbuild.py demo /repo "$DEMO" > "$D/confirm_unmodified.out" 2>&1; echo "exit=$?" >> "$D/confirm_unmodified.out" )
( timeout 2400 python3 /verif/tools/hgbuild/hgbuild.py demo "$WT" "$DEMO" > "$D/confirm_modified.out" 2>&1; echo "exit=$?" >> "$D/confirm_modified.out" )
git -C "$WT" checkout -q -- .
U=$(tail -1 "$D/confirm_unmodified.out"); M=$(tail -1 "$D/confirm_modified.out")
echo "unmodified: $U ; modified: $M" > "$D/confirm.txt"
cat "$D/confirm.txt"
