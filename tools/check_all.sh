#!/bin/bash
# runs every claimed check (tier $1, default quick) in parallel; prints one line per property
cd /verif; T=${1:-quick}
for f in hgv/props/c*.py; do p=$(basename $f .py); P=${p^^}
  ( out=$(python3-vt -m hgv check $P --tier $T 2>&1 | grep -v WARNING); rc=$?; echo "$P rc=$(python3-vt -m hgv check $P --tier $T >/dev/null 2>&1; echo $?) $(echo "$out" | tail -1)"; echo "$out" | grep "^VIOLATION\|^ANALYSIS-ERROR\|^KNOWN" | cut -c1-200 ) &
done; wait
