#!/usr/bin/env python3
"""Offline build harness for DEMONSTRATIONS (never used by a registered check: the deciding step stays static).

  hgbuild.py build <tree> [-j N]            compile every core TU of <tree> (src/**/*.cpp without /python/) -> object list
  hgbuild.py demo  <tree> <demo.cpp> [-j N] build, compile demo.cpp against <tree>, link, run; exit status = demo's
  hgbuild.py test  <tree> <tests/cpp/test_x.cpp> [filter]   the same for ONE in-tree Catch2 test file, compiled against the
                                            mini Catch2 stand-in next to this script (TEST_CASE/SECTION/REQUIRE/CHECK...)

Objects live in a content-addressed cache (default /opt/hgbuild/cache, override HGBUILD_CACHE) shared by every tree:
key = sha256(flags, TU path relative to the tree, every dependency's relative path + content).  The dependency list is the one
g++ -MMD reported the last time that TU was compiled (any tree); if a dependency's content changed the key changes, the TU is
recompiled and the new list is stored.  So a scratch worktree with a one-line patch recompiles only what includes the edited file.
"""
import hashlib, json, os, subprocess, sys, time
from concurrent.futures import ThreadPoolExecutor

CACHE = os.environ.get("HGBUILD_CACHE", "/opt/hgbuild/cache")
SP = "/venv/lib/python3.12/site-packages"
SIMDJSON = "/root/miniconda/pkgs/simdjson-3.10.1-hdb19cb5_0"
OPT = os.environ.get("HGBUILD_OPT", "-O0")
DEFS = ["-DHGRAPH_ENABLE_PYTHON_USER_NODES=0", "-DHGRAPH_TIME_ZONE_BACKEND_DATE=1", "-DHGRAPH_STATIC_DEFINE",
        "-DFMT_HEADER_ONLY", "-DSPDLOG_FMT_EXTERNAL", "-DSPDLOG_HEADER_ONLY"]


# g++ 12's libstdc++ has no std::chrono tzdb / from_stream and the sandbox's simdjson (3.10) has no BIGINT: these four TUs cannot be
# compiled offline.  They hold the time-zone provider, temporal formatting and the JSON codec/operators; demos link with
# --unresolved-symbols=ignore-all and must not call into them.
KNOWN_UNBUILDABLE = set()
# per-TU extra flags: libstdc++ 12 has no C++20 chrono stream operators
EXTRA = {"src/hgraph/types/temporal.cpp": ["-include", os.path.join(os.path.dirname(os.path.abspath(__file__)), "dateshim", "chrono_io_shim.h")]}


def flags(tree):
    gen = os.path.join(CACHE, "gen")
    os.makedirs(os.path.join(gen, "hgraph"), exist_ok=True)
    v = os.path.join(gen, "hgraph", "version.h")
    if not os.path.exists(v):
        with open(f"{SP}/include/hgraph/version.h") as f, open(v, "w") as g:
            g.write(f.read())
    sj = os.path.join(gen, "simdjson.h")
    if not os.path.exists(sj):
        # the tree names simdjson::dom::element_type::BIGINT (simdjson >= 3.11) in three switch labels; the sandbox has 3.10:
        # add the enumerator to a private copy of the single header (no parser ever produces it)
        txt = open(f"{SIMDJSON}/include/simdjson.h").read()
        a = "  NULL_VALUE = 'n' ///< null\n};"
        assert txt.count(a) == 1
        with open(sj + ".tmp", "w") as g:
            g.write(txt.replace(a, "  NULL_VALUE = 'n', ///< null\n  BIGINT = 'Z'\n};"))
        os.replace(sj + ".tmp", sj)
    return (["-std=c++23", OPT, "-w", "-fPIC", "-pthread"] + DEFS +
            [f"-I{tree}/include", f"-I{tree}/include/third_party", f"-I{tree}/src", f"-I{gen}",
             "-I" + os.path.join(os.path.dirname(os.path.abspath(__file__)), "dateshim"),
             "-isystem", f"{SP}/include", "-isystem", f"{SP}/pyarrow/include", "-isystem", f"{SIMDJSON}/include"])


def sha(b):
    return hashlib.sha256(b).hexdigest()


_fh = {}


def fhash(path):
    h = _fh.get(path)
    if h is None:
        try:
            with open(path, "rb") as f:
                h = sha(f.read())
        except OSError:
            h = "missing"
        _fh[path] = h
    return h


def rel(tree, p):
    p = os.path.normpath(p)
    t = os.path.normpath(tree) + os.sep
    return ("T:" + p[len(t):]) if p.startswith(t) else ("A:" + p)


def unrel(tree, r):
    return os.path.join(tree, r[2:]) if r.startswith("T:") else r[2:]


def key_for(tree, tu_rel, deps, fl):
    h = hashlib.sha256()
    here = os.path.dirname(os.path.abspath(__file__))  # the shim directories travel with the script; keep keys location independent
    h.update(json.dumps([a.replace(tree, "<T>").replace(here, "/opt/hgbuild") for a in fl]).encode())
    h.update(tu_rel.encode())
    for d in sorted(deps):
        if d.startswith("A:/usr/") or d.startswith("A:" + SP) or d.startswith("A:/root/miniconda"):
            continue  # system / SDK headers do not change
        h.update(d.encode())
        h.update(fhash(unrel(tree, d)).encode())
    return h.hexdigest()


def parse_d(path):
    txt = open(path).read().replace("\\\n", " ")
    txt = txt.split(":", 1)[1]
    return [w for w in txt.split() if w]


def compile_tu(tree, tu_rel, fl):
    depfile = os.path.join(CACHE, "deps", sha(tu_rel.encode())[:24] + ".json")
    deps = None
    if os.path.exists(depfile):
        try:
            deps = json.load(open(depfile))
        except Exception:
            deps = None
    if deps is not None:
        k = key_for(tree, tu_rel, deps, fl)
        obj = os.path.join(CACHE, "obj", k + ".o")
        if os.path.exists(obj):
            return obj, False, ""
    tmp = os.path.join(CACHE, "tmp", f"{os.getpid()}_{sha(tu_rel.encode())[:12]}")
    r = subprocess.run(["g++"] + fl + EXTRA.get(tu_rel, []) + ["-c", os.path.join(tree, tu_rel), "-o", tmp + ".o", "-MMD", "-MF", tmp + ".d"],
                       capture_output=True, text=True)
    if r.returncode != 0:
        return None, True, r.stderr[-4000:]
    deps = sorted({rel(tree, d) for d in parse_d(tmp + ".d")})
    k = key_for(tree, tu_rel, deps, fl)
    obj = os.path.join(CACHE, "obj", k + ".o")
    os.replace(tmp + ".o", obj)
    os.remove(tmp + ".d")
    with open(depfile + f".{os.getpid()}", "w") as f:
        json.dump(deps, f)
    os.replace(depfile + f".{os.getpid()}", depfile)
    return obj, True, ""


def build(tree, jobs):
    for d in ("obj", "deps", "tmp", "bin"):
        os.makedirs(os.path.join(CACHE, d), exist_ok=True)
    fl = flags(tree)
    tus = []
    for root, _, files in os.walk(os.path.join(tree, "src")):
        for f in files:
            if f.endswith(".cpp"):
                p = os.path.relpath(os.path.join(root, f), tree)
                if "/python/" not in "/" + p:
                    tus.append(p)
    tus.sort()
    t0 = time.time()
    objs, n_comp, fails = [], 0, []
    with ThreadPoolExecutor(jobs) as ex:
        for tu, (obj, compiled, err) in zip(tus, ex.map(lambda t: compile_tu(tree, t, fl), tus)):
            if obj is None:
                fails.append((tu, err))
            else:
                objs.append(obj)
                n_comp += compiled
    fails_known = [f for f in fails if f[0] in KNOWN_UNBUILDABLE]
    fails = [f for f in fails if f[0] not in KNOWN_UNBUILDABLE] + ([] if os.environ.get("HGBUILD_QUIET_KNOWN", "1") == "1" else fails_known)
    print(f"build_all: {len(objs)}/{len(tus)} TUs ok ({len(fails_known)} known-unbuildable here: g++ 12 has no chrono tzdb, simdjson too old), {n_comp} compiled, {time.time()-t0:.1f}s ({tree})", flush=True)
    for tu, err in fails:
        print(f"COMPILE FAILED {tu}\n{err}", flush=True)
    return objs, fails, fl


def demo(tree, src, jobs, catch=False, args=()):
    objs, fails, fl = build(tree, jobs)
    hard = [f for f in fails if f[0] not in KNOWN_UNBUILDABLE]
    if hard:
        return 3
    exe = os.path.join(CACHE, "bin", f"demo_{os.getpid()}")
    dobj = exe + ".o"
    extra = [f"-I{tree}/tests/cpp", "-I" + os.path.join(os.path.dirname(os.path.abspath(__file__)), "minicatch")]
    if catch:
        extra += ["-DMINICATCH_MAIN"]
    r = subprocess.run(["g++"] + fl + extra + ["-c", src, "-o", dobj], capture_output=True, text=True)
    if r.returncode != 0:
        print("DEMO COMPILE FAILED\n" + r.stderr[-6000:])
        return 3
    rsp = exe + ".rsp"
    with open(rsp, "w") as f:
        f.write("\n".join(objs))
    pa = f"{SP}/pyarrow"
    link = ["g++", "-pthread", dobj, "@" + rsp, "-o", exe, f"-L{pa}", "-l:libarrow.so.2500", "-l:libarrow_compute.so.2500",
            "-l:libarrow_acero.so.2500", "-L/root/miniconda/lib", "-l:libsimdjson.so.23", f"-Wl,-rpath,{pa}",
            "-Wl,-rpath,/root/miniconda/lib", "-ldl", "-Wl,--no-demangle"]
    r = subprocess.run(link, capture_output=True, text=True)
    if r.returncode != 0 and "undefined reference" in r.stderr:
        # symbols that live in the known-unbuildable TUs: define each as a trap so that the rest links; calling one aborts loudly
        import re
        syms = sorted(set(re.findall(r"undefined reference to `([^']+)'", r.stderr)))
        stub = exe + "_stubs.s"
        with open(stub, "w") as f:
            f.write(".text\n")
            for sy in syms:
                f.write(f".globl {sy}\n.type {sy},@function\n{sy}:\n  ud2\n")
        r2 = subprocess.run(["gcc", "-c", stub, "-o", exe + "_stubs.o"], capture_output=True, text=True)
        if r2.returncode == 0:
            link.insert(2, exe + "_stubs.o")
            r = subprocess.run(link, capture_output=True, text=True)
        print(f"LINK: {len(syms)} symbols of the unbuildable TUs stubbed with traps", flush=True)
    if r.returncode != 0:
        print("LINK FAILED\n" + r.stderr[-6000:])
        return 3
    try:
        r = subprocess.run([exe] + list(args), timeout=int(os.environ.get("HGBUILD_RUN_TIMEOUT", "300")))
        rc = r.returncode
    except subprocess.TimeoutExpired:
        print("DEMO TIMEOUT")
        rc = 124
    for p in (exe, dobj, rsp, exe + "_stubs.s", exe + "_stubs.o"):
        try:
            os.remove(p)
        except OSError:
            pass
    return rc if rc >= 0 else 128 - rc


def main():
    a = sys.argv[1:]
    jobs = 16
    if "-j" in a:
        i = a.index("-j")
        jobs = int(a[i + 1])
        del a[i:i + 2]
    if a[0] == "build":
        _, fails, _ = build(os.path.abspath(a[1]), jobs)
        sys.exit(1 if fails else 0)
    if a[0] == "demo":
        sys.exit(demo(os.path.abspath(a[1]), os.path.abspath(a[2]), jobs))
    if a[0] == "test":
        sys.exit(demo(os.path.abspath(a[1]), os.path.abspath(a[2]), jobs, catch=True, args=a[3:]))
    sys.exit(__doc__)


main()
