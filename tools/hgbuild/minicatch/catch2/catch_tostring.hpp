#pragma once
