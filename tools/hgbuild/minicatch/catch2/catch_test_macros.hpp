// Minimal stand-in for the Catch2 v3 macros the in-tree tests use (offline sandbox: no Catch2 available).
// Semantics kept: TEST_CASE registration, SECTION re-runs (one leaf path per run), REQUIRE aborts the test case, CHECK continues.
#pragma once
#include <cstdio>
#include <exception>
#include <functional>
#include <set>
#include <sstream>
#include <string>
#include <vector>

namespace minicatch
{
    struct AbortTest {};
    struct Case { const char *name; const char *file; int line; void (*fn)(); };
    inline std::vector<Case> &cases() { static std::vector<Case> c; return c; }
    struct Reg { Reg(const char *n, const char *f, int l, void (*fn)()) { cases().push_back({n, f, l, fn}); } };
    struct State
    {
        int failures{0}, assertions{0};
        std::set<std::string> done;
        std::vector<std::string> path;
        std::vector<bool> entered_at_level{false};
        std::vector<bool> pending_in{false};
        bool more{false};
    };
    inline State &st() { static State s; return s; }
    inline std::function<void()> &case_hook() { static std::function<void()> h; return h; }
    inline void fail(const char *kind, const char *expr, const char *file, int line, const std::string &extra = {})
    {
        ++st().failures;
        std::printf("  FAILED %s( %s ) at %s:%d %s\n", kind, expr, file, line, extra.c_str());
    }
    struct Section
    {
        bool on{false};
        std::string key;
        Section(const char *name, int line)
        {
            auto &s = st();
            key = (s.path.empty() ? std::string{} : s.path.back()) + "/" + name + "#" + std::to_string(line);
            const std::size_t level = s.path.size();
            if (s.done.count(key)) { return; }
            if (s.entered_at_level[level]) { s.more = true; s.pending_in[level] = true; return; }
            s.entered_at_level[level] = true;
            on = true;
            s.path.push_back(key);
            s.entered_at_level.push_back(false);
            s.pending_in.push_back(false);
        }
        ~Section()
        {
            if (!on) { return; }
            auto &s = st();
            const bool pending = s.pending_in.back();
            s.path.pop_back();
            s.entered_at_level.pop_back();
            s.pending_in.pop_back();
            if (!pending && !std::uncaught_exceptions()) { s.done.insert(key); }
            else if (pending) { s.more = true; }
            else { s.done.insert(key); }
        }
        explicit operator bool() const { return on; }
    };
    inline int run_all(int argc, char **argv)
    {
        std::string filter = argc > 1 ? argv[1] : "";
        int failed_cases = 0, ran = 0;
        for (auto &c : cases())
        {
            if (!filter.empty() && std::string(c.name).find(filter) == std::string::npos) { continue; }
            ++ran;
            auto &s = st();
            s.done.clear();
            const int before = s.failures;
            int guard = 0;
            do {
                if (case_hook()) { case_hook()(); }
                s.more = false;
                s.path.clear();
                s.entered_at_level.assign(1, false);
                s.pending_in.assign(1, false);
                try { c.fn(); }
                catch (const AbortTest &) {}
                catch (const std::exception &e) { fail("unexpected exception", e.what(), c.file, c.line); }
                catch (...) { fail("unexpected exception", "?", c.file, c.line); }
                if (case_hook()) { case_hook()(); }
            } while (s.more && ++guard < 10000);
            if (s.failures != before) { ++failed_cases; std::printf("TEST CASE FAILED: %s (%s:%d)\n", c.name, c.file, c.line); }
        }
        std::printf("minicatch: %d test cases, %d failed; %d assertions, %d failures\n", ran, failed_cases, st().assertions, st().failures);
        return failed_cases ? 1 : 0;
    }
    template <typename M> bool match(const std::string &s, const M &m) { return m.match(s); }
    inline bool match(const std::string &s, const std::string &m) { return s == m; }
    inline bool match(const std::string &s, const char *m) { return s == m; }
}  // namespace minicatch

#define MC_CAT2(a, b) a##b
#define MC_CAT(a, b) MC_CAT2(a, b)
#define MC_TEST_CASE_IMPL(fn, ...)                                                              \
    static void fn();                                                                           \
    static ::minicatch::Reg MC_CAT(fn, _reg){MC_FIRST(__VA_ARGS__, ""), __FILE__, __LINE__, &fn}; \
    static void fn()
#define MC_FIRST(a, ...) a
#define TEST_CASE(...) MC_TEST_CASE_IMPL(MC_CAT(mc_test_, __COUNTER__), __VA_ARGS__)
#define SECTION(...) if (::minicatch::Section MC_CAT(mc_sec_, __LINE__){MC_FIRST(__VA_ARGS__, ""), __LINE__})
#define DYNAMIC_SECTION(...) if (true)

#define MC_ASSERT(kind, abort, neg, ...)                                                                     \
    do {                                                                                                     \
        ++::minicatch::st().assertions;                                                                      \
        bool mc_ok = false;                                                                                  \
        try { mc_ok = static_cast<bool>(__VA_ARGS__); }                                                      \
        catch (const ::minicatch::AbortTest &) { throw; }                                                    \
        catch (const std::exception &mc_e) { ::minicatch::fail(kind " threw", mc_e.what(), __FILE__, __LINE__, #__VA_ARGS__); if (abort) throw ::minicatch::AbortTest{}; break; } \
        if (mc_ok == (neg)) { ::minicatch::fail(kind, #__VA_ARGS__, __FILE__, __LINE__); if (abort) throw ::minicatch::AbortTest{}; } \
    } while (0)
#define REQUIRE(...) MC_ASSERT("REQUIRE", true, false, __VA_ARGS__)
#define CHECK(...) MC_ASSERT("CHECK", false, false, __VA_ARGS__)
#define REQUIRE_FALSE(...) MC_ASSERT("REQUIRE_FALSE", true, true, __VA_ARGS__)
#define CHECK_FALSE(...) MC_ASSERT("CHECK_FALSE", false, true, __VA_ARGS__)
#define STATIC_REQUIRE(...) static_assert(__VA_ARGS__)
#define STATIC_REQUIRE_FALSE(...) static_assert(!(__VA_ARGS__))
#define STATIC_CHECK(...) static_assert(__VA_ARGS__)

#define MC_THROWS(kind, abort, expr, catch_clause, ...)                                                      \
    do {                                                                                                     \
        ++::minicatch::st().assertions;                                                                      \
        bool mc_thrown = false;                                                                              \
        try { static_cast<void>(expr); }                                                                     \
        catch (const ::minicatch::AbortTest &) { throw; }                                                    \
        catch_clause                                                                                         \
        catch (...) { mc_thrown = false; ::minicatch::fail(kind " (other exception type)", #expr, __FILE__, __LINE__); if (abort) throw ::minicatch::AbortTest{}; break; } \
        if (!mc_thrown) { ::minicatch::fail(kind " (nothing thrown / mismatch)", #expr, __FILE__, __LINE__); if (abort) throw ::minicatch::AbortTest{}; } \
    } while (0)
#define REQUIRE_THROWS_AS(expr, type) MC_THROWS("REQUIRE_THROWS_AS", true, expr, catch (const type &) { mc_thrown = true; })
#define CHECK_THROWS_AS(expr, type) MC_THROWS("CHECK_THROWS_AS", false, expr, catch (const type &) { mc_thrown = true; })
#define REQUIRE_THROWS(expr) MC_THROWS("REQUIRE_THROWS", true, expr, catch (const std::exception &) { mc_thrown = true; })
#define CHECK_THROWS(expr) MC_THROWS("CHECK_THROWS", false, expr, catch (const std::exception &) { mc_thrown = true; })
#define REQUIRE_THROWS_WITH(expr, m) MC_THROWS("REQUIRE_THROWS_WITH", true, expr, catch (const std::exception &mc_e) { mc_thrown = ::minicatch::match(mc_e.what(), m); })
#define CHECK_THROWS_WITH(expr, m) MC_THROWS("CHECK_THROWS_WITH", false, expr, catch (const std::exception &mc_e) { mc_thrown = ::minicatch::match(mc_e.what(), m); })
#define MC_NOTHROW(kind, abort, expr)                                                                        \
    do {                                                                                                     \
        ++::minicatch::st().assertions;                                                                      \
        try { static_cast<void>(expr); }                                                                     \
        catch (const ::minicatch::AbortTest &) { throw; }                                                    \
        catch (const std::exception &mc_e) { ::minicatch::fail(kind, #expr, __FILE__, __LINE__, mc_e.what()); if (abort) throw ::minicatch::AbortTest{}; } \
    } while (0)
#define REQUIRE_NOTHROW(expr) MC_NOTHROW("REQUIRE_NOTHROW", true, expr)
#define CHECK_NOTHROW(expr) MC_NOTHROW("CHECK_NOTHROW", false, expr)
#define REQUIRE_THAT(v, m) MC_ASSERT("REQUIRE_THAT", true, false, (m).match(v))
#define CHECK_THAT(v, m) MC_ASSERT("CHECK_THAT", false, false, (m).match(v))
#define INFO(...) do {} while (0)
#define CAPTURE(...) do {} while (0)
#define UNSCOPED_INFO(...) do {} while (0)
#define SUCCEED(...) do { ++::minicatch::st().assertions; } while (0)
#define FAIL(...) do { std::ostringstream mc_os; mc_os << __VA_ARGS__; ::minicatch::fail("FAIL", mc_os.str().c_str(), __FILE__, __LINE__); throw ::minicatch::AbortTest{}; } while (0)
#define FAIL_CHECK(...) do { std::ostringstream mc_os; mc_os << __VA_ARGS__; ::minicatch::fail("FAIL_CHECK", mc_os.str().c_str(), __FILE__, __LINE__); } while (0)
#define WARN(...) do {} while (0)
#define SKIP(...) do { throw ::minicatch::AbortTest{}; } while (0)

#ifdef MINICATCH_MAIN
#include <hgraph/types/registry_reset.h>
int main(int argc, char **argv)
{
    ::minicatch::case_hook() = [] { hgraph::reset_all_registries(); };  // what tests/cpp/registry_test_listener.cpp does
    return ::minicatch::run_all(argc, argv);
}
#endif
