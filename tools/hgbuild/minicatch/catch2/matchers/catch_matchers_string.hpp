#pragma once
#include <string>
namespace Catch::Matchers
{
    struct ContainsSubstringMatcher { std::string needle; bool match(const std::string &s) const { return s.find(needle) != std::string::npos; } };
    inline ContainsSubstringMatcher ContainsSubstring(std::string n) { return {std::move(n)}; }
    struct EqualsMatcher { std::string v; bool match(const std::string &s) const { return s == v; } };
    inline EqualsMatcher Equals(std::string n) { return {std::move(n)}; }
    struct StartsWithMatcher { std::string v; bool match(const std::string &s) const { return s.rfind(v, 0) == 0; } };
    inline StartsWithMatcher StartsWith(std::string n) { return {std::move(n)}; }
}
