#pragma once
#include <arrow/vendored/datetime/tz.h>
namespace date = arrow_vendored::date;
