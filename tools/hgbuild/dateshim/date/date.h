// offline stand-in for Howard Hinnant's <date/date.h>: Arrow ships the same library as arrow_vendored::date (headers in pyarrow/include,
// tz implementation exported by libarrow.so)
#pragma once
#include <arrow/vendored/datetime/date.h>
namespace date = arrow_vendored::date;
