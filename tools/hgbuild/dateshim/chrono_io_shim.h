// force-included (-include) for the TUs that stream std::chrono types: libstdc++ 12 has no C++20 chrono I/O; the vendored date
// library provides the same operators
#pragma once
#include <arrow/vendored/datetime/date.h>
namespace hgraph { using arrow_vendored::date::operator<<; }
namespace hgraph
{
    inline std::ostream &operator<<(std::ostream &o, const std::chrono::year_month_day &v)
    {
        namespace d = arrow_vendored::date;
        return o << d::year_month_day{d::year{static_cast<int>(v.year())}, d::month{static_cast<unsigned>(v.month())},
                                      d::day{static_cast<unsigned>(v.day())}};
    }
}
