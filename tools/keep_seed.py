#!/usr/bin/env python3
"""keep_seed.py <seed-id e.g. C12-2> : copies a CONFIRMED seeded change from /tmp/seeded/out/<id> to /verif/seeded/<id>/
(patch.diff, demo.cpp, meta.json).  Refuses unless confirm.txt shows unmodified exit=0 and modified exit!=0.
meta.json records what I ran, what I observed and which of my checks report the change (computed here with the
in-memory patch overlay; /repo is not modified)."""
import json, os, re, shutil, subprocess, sys

sid = sys.argv[1]
src = f"/tmp/seed/{sid.split(chr(45))[0]}/out/{sid}"
dst = f"/verif/seeded/{sid}"
conf = open(f"{src}/confirm.txt").read().strip()
m = re.match(r"unmodified: exit=(\d+) ; modified: exit=(\d+)", conf)
if not m or m.group(1) != "0" or m.group(2) == "0":
    sys.exit(f"{sid}: not confirmed: {conf}")
prop = sid.split("-")[0]
os.makedirs(dst, exist_ok=True)
shutil.copy(f"{src}/patch.diff", f"{dst}/patch.diff")
shutil.copy(f"{src}/demo.cpp", f"{dst}/demo.cpp")
agent = {}
if os.path.exists(f"{src}/meta.json"):
    try:
        agent = json.load(open(f"{src}/meta.json"))
    except Exception:
        agent = {}
caught = {}
props = sorted(p[:-3].upper() for p in os.listdir("/verif/hgv/props") if re.fullmatch(r"c\d\d\.py", p))
fast_note = None
if os.environ.get("KEEP_FAST") == "1":
    # fast mode: re-check the own property and the properties that reported the change in the first run only
    fr = ""
    try:
        fr = open(f"{src}/first_run.txt").read()
    except OSError:
        pass
    props = sorted({prop} | set(re.findall(r"(C\d\d):\[", fr)))
    fast_note = "fast mode: only the own property and the properties that reported the change in the first run were re-checked"
env = dict(os.environ, HGV_PATCH=f"{src}/patch.diff", HGV_EVIDENCE_DIR=f"/tmp/hgv_try_evidence_{os.getpid()}")
for p in props:
    r = subprocess.run(["python3-vt", "-m", "hgv", "check", p], cwd="/verif", env=env, capture_output=True, text=True)
    rules = sorted({ln.split()[1] for ln in r.stdout.splitlines() if ln.startswith("FINDING ")})
    errs = [ln[:160] for ln in r.stdout.splitlines() if ln.startswith("ANALYSIS-ERROR")]
    if rules or errs:
        caught[p] = {"exit": r.returncode, "rules": rules, "analysis_errors": errs}
def tail(path, n=12):
    try:
        return [l for l in open(path).read().splitlines() if "WARNING conda" not in l][-n:]
    except Exception:
        return []
meta = {
    "property": prop,
    "seed": sid,
    "title": agent.get("title"),
    "what_changed": agent.get("what_changed"),
    "needs_to_manifest": agent.get("needs_to_manifest"),
    "why_tests_pass": agent.get("why_tests_pass"),
    "demo_strength": agent.get("demo_strength", "deterministic"),
    "origin": "fresh sub-agent given only the property text and its own scratch worktree; nothing from /verif",
    "confirmed_by_me": {
        "how": "tools/confirm_seed.sh: git apply patch.diff in a scratch worktree, /opt/hgbuild/run_demo.sh <tree> demo.cpp on the unmodified "
               "/repo sources and on the patched worktree (offline C++ build of the real sources), worktree restored afterwards",
        "unmodified_exit": int(m.group(1)), "modified_exit": int(m.group(2)),
        "unmodified_tail": tail(f"{src}/confirm_unmodified.out"), "modified_tail": tail(f"{src}/confirm_modified.out"),
    },
    "detected_by": caught,
    **({"detected_by_note": fast_note} if fast_note else {}),
    "detected_by_own_property": prop in caught and bool(caught[prop]["rules"]),
    "apply": f"git -C /repo apply /verif/seeded/{sid}/patch.diff ; <run checks> ; git -C /repo checkout -- .",
}
json.dump(meta, open(f"{dst}/meta.json", "w"), indent=1)
print(sid, "kept; detected by", {k: v["rules"] for k, v in caught.items()})
