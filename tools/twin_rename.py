#!/usr/bin/env python3
"""twin_rename.py <ID>...: robustness probe of the rules ("never alarm on code where the property holds").
For every function a property's rules analysed, build a behaviour-preserving variant in which every LOCAL variable of that
function (declarations, lambda parameters, range-for and structured-binding names) is renamed, run the whole check on the
in-memory overlay, and report every finding / analysis error: each one is a rule that keys on a local's spelling."""
import os, re, sys
sys.path.insert(0, "/verif")
from hgv.__main__ import run_check, load
from hgv.report import Run, load_known
from hgv import rules as R, cparse as C

def rename_function(tree, rel, fd):
    fi = tree.file(rel)
    try:
        fa = R.parse(Run("X", "quick", tree, quiet=True), fd, strict=False)
    except Exception:
        return None
    names = set()
    for n in fa.body.walk():
        if isinstance(n, C.Declarator):
            if n.bindings:
                names |= set(n.bindings)
            elif n.name:
                names.add(n.name)
        elif isinstance(n, C.Lambda):
            names |= {nm for _, nm in n.params if nm}
        elif isinstance(n, C.RangeFor):
            v = getattr(n, "var", None)
            if isinstance(v, str):
                names.add(v)
            b = getattr(n, "bindings", None)
            if b:
                names |= set(b)
    names = {n for n in names if re.fullmatch(r"[A-Za-z_]\w*", n) and len(n) > 1}
    names |= {nm for _, nm in fa.params if nm and len(nm) > 1}  # parameters are renamed too (definition only)
    if not names:
        return None
    a, b = fd.body
    if getattr(fd, "params", None):
        a = fd.params[0]
    toks = fi.toks
    text = tree.read(rel)
    lines = text.split("\n")
    # line/col based replacement, right to left per line
    edits = []
    for k in range(a, b + 1):
        tk = toks[k]
        if tk.kind != "id" or tk.text not in names:
            continue
        prev = toks[k - 1].text if k > 0 else ""
        if prev in (".", "->", "::"):
            continue
        nxt = toks[k + 1].text if k + 1 < len(toks) else ""
        if nxt == "::":
            continue
        edits.append((tk.line, tk.col, tk.text))
    if not edits:
        return None
    for line, col, name in sorted(edits, reverse=True):
        s = lines[line - 1]
        c = col - 1 if s[col - 1:col - 1 + len(name)] == name else (col if s[col:col + len(name)] == name else None)
        if c is None:
            return None
        lines[line - 1] = s[:c] + name + "_rn" + s[c + len(name):]
    return "\n".join(lines)

def main():
    for prop in sys.argv[1:]:
        base = run_check(prop, "quick", quiet=True)
        known = [k for k in load_known() if k.get("status", "known") == "known"]
        mod = load(prop)
        n = bad = 0
        for key in sorted(base.functions):
            rel, qual = key.split("::", 1)
            fds = [f for f in base.tree.file(rel).funcs if f.qual == qual and f.body is not None]
            for fd in fds[:1]:
                new = rename_function(base.tree, rel, fd)
                if new is None:
                    continue
                n += 1
                t2 = base.tree.with_overlay({rel: new})
                run = Run(prop, "selftest", t2, quiet=True)
                try:
                    mod.check(run)
                except Exception as e:
                    run.errors.append(f"internal {e!r}")
                fresh = [f for f in run.findings if not any(k["property"] == f.prop and k["rule"] == f.rule and k["key"] == f.key for k in known)]
                if fresh or run.errors:
                    bad += 1
                    print(f"{prop} BRITTLE on renaming locals of {rel}::{qual}:")
                    for f in fresh[:3]:
                        print(f"     FINDING {f.rule} {f.key[:80]} :: {f.message[:160]}")
                    for e in run.errors[:3]:
                        print(f"     ERROR {e[:240]}")
        print(f"{prop}: {n} functions renamed, {bad} brittle")

main()
