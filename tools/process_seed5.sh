#!/bin/bash
# wave 5: confirm + first-run detection (checks frozen at the commit the wave was launched from: worktree ${HGV_FROZEN:-/tmp/verif_w5})
S="$1"; P=${S%-*}; D=/tmp/seed/$P/out/$S
[ -f "$D/patch.diff" ] || { echo "$S: no patch.diff"; exit 1; }
bash /verif/tools/confirm_seed.sh "$D" /tmp/seed/$P/wt > /dev/null 2>&1
echo "$S confirm: $(cat $D/confirm.txt)"
/verif/tools/first_run.sh $S | tee $D/first_run.txt
