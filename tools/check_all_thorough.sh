#!/bin/bash
# runs every thorough command, 5 at a time (each compiles its translation units with g++ for the GIR cross-check)
cd /verif
for f in hgv/props/c*.py; do p=$(basename $f .py); P=${p^^}
  ( out=$(python3-vt -m hgv check $P --tier thorough 2>&1 | grep -v WARNING); rc=$?; echo "$P $(echo "$out" | tail -1)"; echo "$out" | grep "^VIOLATION\|^ANALYSIS-ERROR" | cut -c1-300 ) &
  while [ $(jobs -r | wc -l) -ge 5 ]; do sleep 2; done
done; wait
