#!/usr/bin/env python3
"""Regenerate MANIFEST.json from the property modules present in hgv/props."""
import importlib, json, os, sys
sys.path.insert(0, os.path.dirname(os.path.dirname(os.path.abspath(__file__))))
ROOT = os.path.dirname(os.path.dirname(os.path.abspath(__file__)))
props = [json.loads(l) for l in open(os.path.join(ROOT, "properties.jsonl"))]
NA = {}
na_path = os.path.join(ROOT, "tools", "not_applicable.json")
if os.path.exists(na_path):
    NA = json.load(open(na_path))
checks, na = [], []
for p in props:
    pid = p["id"]
    try:
        mod = importlib.import_module(f"hgv.props.{pid.lower()}")
    except ModuleNotFoundError:
        na.append({"property_id": pid, "reason": NA.get(pid, "no static check built yet for this property (see DESIGN.md section 6)")})
        continue
    partial = getattr(mod, "PARTIAL", False)
    checks.append({
        "property_id": pid,
        "quick_cmd": f"python3-vt -m hgv check {pid} --tier quick",
        "thorough_cmd": f"python3-vt -m hgv check {pid} --tier thorough",
        "evidence_file": f"evidence/{pid}.json",
        "replay_cmd_template": "python3-vt -m hgv replay {path}",
        "engine": "hgv",
        "level_claimed": {
            "category": "other",
            "text": ("static rule conformance" + (" (PARTIAL: necessary structural clauses only)" if partial else "") + ": " + mod.EXPLANATION),
            "design_ref": f"DESIGN.md section 4, {pid}",
        },
        "level_note": "Trusted base: the hgv C++ front-end (lexer, declaration index, statement/expression parser, CFG), the spec tables in hgv/props, "
                      "and the assumptions listed in the evidence file; decides the listed structural clauses (necessary conditions), not the behaviour as a whole. "
                      "The thorough tier additionally cross-checks the front-end against g++'s own CFG dump of the same translation units (calls and exceptional edges, "
                      "exit 2 on disagreement) and runs the rule self-test (seeded breaking edits must be reported, behaviour-preserving twins must stay silent). "
                      + "; ".join(mod.ASSUMPTIONS),
        "technique": mod.TECHNIQUE,
    })
m = {
    "version": 1,
    "setup_cmd": "python3-vt -m hgv setup",
    "hooks": {"guard": "HGRAPH_VERIF", "enable": "no source hooks are needed: the checks read /repo sources directly (nothing is instrumented)",
              "baseline_off_cmd": "cd /repo && /venv/bin/python -m pytest -ra -q -p no:cacheprovider --timeout=900 --continue-on-collection-errors",
              "source_commits": [], "add_only": True},
    "engines": [{"name": "hgv", "path": "hgv", "serves_properties": [c["property_id"] for c in checks],
                 "kind_free_text": "repository-specific static analyser for the hgraph C++ runtime: own C++ lexer/parser, guarded-effect decision tables over weak orderings, statement CFG with exception/guard typestate, tree-wide who-writes/ops-table/sibling rules"}],
    "checks": checks,
    "not_applicable": na,
    "notes": "All checks are pure static analysis of /repo's current working tree (python3-vt, stdlib only). Exit 0 = all decided clauses hold; 1 = VIOLATION; 2 = ANALYSIS-ERROR (cannot decide).",
}
json.dump(m, open(os.path.join(ROOT, "MANIFEST.json"), "w"), indent=1)
print(len(checks), "checks,", len(na), "not applicable")
