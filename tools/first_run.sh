#!/bin/bash
# first-run detection of a seed with the checks as they were at the start of the session (commit 88530b0)
S="$1"; P=${S%-*}; D=/tmp/seed/$P/out/$S/patch.diff
cd ${HGV_FROZEN:-/tmp/verif_w5}   # a git worktree of /verif at the commit the wave was launched from
res=""
for p in C01 C02 C03 C04 C05 C06 C07 C08 C09 C10 C11 C12 C13 C14 C15 C16 C17 C18 C19 C20; do
  out=$(HGV_PATCH="$D" HGV_EVIDENCE_DIR=/tmp/hgv_fr_$$ python3-vt -m hgv check $p 2>&1)
  r=$(echo "$out" | grep "^FINDING" | awk '{print $2}' | sort -u | tr '\n' ',')
  e=$(echo "$out" | grep -c "^ANALYSIS-ERROR")
  [ -n "$r" ] && res="$res $p:[${r%,}]"
  [ "$e" != "0" ] && res="$res $p:exit2"
done
echo "$S =>$res"
rm -rf /tmp/hgv_fr_$$
