#!/usr/bin/env python3
"""insert_rule.py <props file> <file with the obligation text> [<file with variant lines>]
Appends an obligation block at the END of check() (before the next top-level statement of the module) and prepends variant
lines to VARIANTS."""
import re, sys
p, addf = sys.argv[1], sys.argv[2]
s = open(p).read()
add = open(addf).read().rstrip("\n")
m = re.search(r"^def check\(run: Run\) -> None:\n", s, re.M)
rest = s[m.end():]
nxt = re.search(r"^(?=[^\s#])", rest, re.M)        # first top-level statement after check()
pos = m.end() + nxt.start()
# keep a preceding comment block with the statement it belongs to
head = s[:pos]
while True:
    lines = head.rstrip("\n").split("\n")
    if lines and lines[-1].startswith("#"):
        head = "\n".join(lines[:-1]) + "\n"
    else:
        break
pos = len(head)
s = s[:pos].rstrip("\n") + "\n\n" + add + "\n\n\n" + s[pos:].lstrip("\n")
if len(sys.argv) > 3:
    v = open(sys.argv[3]).read()
    s = s.replace("VARIANTS = [\n", "VARIANTS = [\n" + v, 1)
open(p, "w").write(s)
