#!/bin/bash
# usage: try_patch.sh <patch.diff> [props...]  -- runs the quick checks against /repo + patch as an in-memory overlay (never edits /repo)
set -u
P="$(readlink -f "$1")"; shift
PROPS="${@:-C01 C02 C03 C04 C05 C06 C07 C08 C09 C10 C11 C12 C13 C14 C15 C16 C17 C18 C19 C20}"
cd /verif
for p in $PROPS; do
  [ -f hgv/props/${p,,}.py ] || continue
  out=$(HGV_PATCH="$P" HGV_EVIDENCE_DIR=/tmp/hgv_try_evidence_$$ python3-vt -m hgv check $p 2>&1 | grep -v WARNING)
  nviol=$(echo "$out" | grep -c "^VIOLATION")
  nerr=$(echo "$out" | grep -c "^ANALYSIS-ERROR")
  if [ "$nviol" != "0" ] || [ "$nerr" != "0" ]; then
    echo "== $p: violations=$nviol errors=$nerr"
    echo "$out" | grep "^FINDING\|^ANALYSIS-ERROR" | cut -c1-400 | head -4
  fi
done
