#!/bin/bash
# usage: try_patch.sh <patch.diff> [props...]  -- applies the patch to /repo, runs quick checks, reverts.
set -u
P="$1"; shift
PROPS="${@:-C01 C02 C03 C04 C05 C06 C07 C08 C09 C10 C11 C12 C13 C14 C15 C16 C17 C18 C19 C20}"
cd /repo || exit 9
if ! git apply --check "$P" 2>/dev/null; then echo "PATCH DOES NOT APPLY: $P"; exit 9; fi
git apply "$P"
cd /verif
for p in $PROPS; do
  [ -f hgv/props/${p,,}.py ] || continue
  out=$(HGV_NO_EVIDENCE=1 python3-vt -m hgv check $p 2>&1 | grep -v WARNING)
  rc=$?
  nviol=$(echo "$out" | grep -c "^VIOLATION")
  nerr=$(echo "$out" | grep -c "^ANALYSIS-ERROR")
  if [ "$nviol" != "0" ] || [ "$nerr" != "0" ]; then
    echo "== $p: violations=$nviol errors=$nerr"
    echo "$out" | grep "^FINDING\|^ANALYSIS-ERROR" | cut -c1-400 | head -5
  fi
done
git -C /repo checkout -- .
echo "(reverted)"
