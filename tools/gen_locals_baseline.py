#!/usr/bin/env python3
"""Regenerates hgv/locals_baseline.json: the locals (name, name-independent signature) of every function any rule analyses
on the CURRENT tree.  Run after a rule starts analysing a new function or after an intended change of the repository."""
import json, os, sys
sys.path.insert(0, "/verif")
os.environ["HGV_NO_NORMALISE"] = "1"
from hgv.__main__ import run_check, PROPS, load
from hgv import cparse as C
from hgv.normalize import local_entries, fkey, BASELINE
from hgv.index import Tree
tree = Tree()
funcs = set()
for p in PROPS:
    try:
        load(p)
    except ModuleNotFoundError:
        continue
    run = run_check(p, "quick", tree=tree, quiet=True)
    funcs |= set(run.functions)
out = {}
by_file = {}
for k in funcs:
    rel, qual = k.split("::", 1)
    by_file.setdefault(rel, set()).add(qual)
for rel, quals in sorted(by_file.items()):
    fi = tree.file(rel)
    seen = {}
    for fd in fi.funcs:
        if fd.body is None or fd.qual not in quals:
            continue
        key = fkey(fd)
        n = seen.get(key, 0)
        seen[key] = n + 1
        key_n = key if n == 0 else f"{key}#{n}"
        try:
            fa = C.parse_function(fi, fd)
        except Exception:
            continue
        out[key_n] = [[nm, sig] for nm, sig in local_entries(fa)]
json.dump(out, open(BASELINE, "w"), indent=0, sort_keys=True)
print(f"{len(out)} functions, {sum(len(v) for v in out.values())} locals -> {BASELINE}")
