#!/bin/bash
# runs every property's self-test in parallel; prints one line per property
cd /verif
for f in hgv/props/c*.py; do p=$(basename $f .py); P=${p^^}
  ( out=$(python3-vt -m hgv selftest $P 2>&1 | grep -v WARNING); d=$(echo "$out" | grep -c '"failures": \[\]'); n=$(echo "$out" | grep '"detected"' | tr -d ' ,'); t=$(echo "$out" | grep '"silent_twins"' | tr -d ' ,'); s=$(echo "$out" | grep '"stale"' | tr -d ' ,')
    if [ "$d" = "1" ]; then echo "$P ok $n $t $s"; else echo "$P FAIL $n $t $s"; echo "$out" | grep -A6 '"failures"' | cut -c1-300 | head -8; fi ) &
done; wait
